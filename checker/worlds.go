package main

// "Worlds": sparse conditional constant propagation of one function under an assumption that fixes some of its values
// (every read returns "", the lexer is in state S, the interpreter's status is RETURNING). The result is the set of blocks and
// edges that stay feasible under the assumption. Nothing is executed: values are constants or unknown, a branch whose condition
// does not fold keeps both successors, loops are handled by iterating to the fixpoint of a three-level lattice
// (undefined < constant < unknown). Fields of local structs are followed flow-sensitively (one cell per alloc and field path).

import (
	"fmt"
	"go/constant"
	"go/token"
	"go/types"

	"golang.org/x/tools/go/ssa"
)

type wLat struct {
	k int // 0 undefined, 1 constant, 2 unknown
	v constant.Value
}

var wTop = wLat{k: 2}

func wConst(v constant.Value) wLat { return wLat{1, v} }

func (a wLat) join(b wLat) wLat {
	switch {
	case a.k == 0:
		return b
	case b.k == 0:
		return a
	case a.k == 2 || b.k == 2:
		return wTop
	}
	if a.v.Kind() == b.v.Kind() && constant.Compare(a.v, token.EQL, b.v) {
		return a
	}
	return wTop
}

func (a wLat) eq(b wLat) bool {
	if a.k != b.k {
		return false
	}
	if a.k != 1 {
		return true
	}
	return a.v.Kind() == b.v.Kind() && constant.Compare(a.v, token.EQL, b.v)
}

func (a wLat) String() string {
	switch a.k {
	case 0:
		return "undef"
	case 1:
		return a.v.ExactString()
	}
	return "?"
}

type World struct {
	Fn *ssa.Function
	// Seed fixes a value in this world.
	Seed func(v ssa.Value) (constant.Value, bool)
	// Call folds a call (after Seed); ok=false leaves it to the default (pure callees of Interp are evaluated, the rest is unknown).
	Call func(call *ssa.Call, get func(ssa.Value) wLat) (wLat, bool)
	// Bin folds a binary operation the default rules cannot (e.g. `offset == reader.Size()` in the end-of-input world).
	Bin func(b *ssa.BinOp, get func(ssa.Value) wLat) (wLat, bool)
	// CellDefault is the content of a local struct field that was last written by something the analysis does not model
	// (a whole-struct store, a call that received its address).
	CellDefault func(alloc *ssa.Alloc, path string, t types.Type) wLat
	// Interp: statically resolved callees that may be evaluated (pure predicates). Depth-limited.
	Interp func(fn *ssa.Function) bool

	// StartBlock/StartIndex: begin the analysis in the middle of the function (right behind an instruction), with everything that was
	// computed before unknown. Reentered reports whether StartBlock is reached again from one of its predecessors.
	StartBlock *ssa.BasicBlock
	StartIndex int
	Reentered  bool

	depth int
	val   map[ssa.Value]wLat
	Reach map[*ssa.BasicBlock]bool
	Edge  map[[2]*ssa.BasicBlock]bool
	out   map[*ssa.BasicBlock]map[string]wLat
	args  []wLat
}

type wCell struct {
	alloc *ssa.Alloc
	path  string
}

// cellOf resolves an address to (local alloc, field path) when it is a chain of FieldAddr over an Alloc of this function.
func cellOf(v ssa.Value) (wCell, bool) {
	path := ""
	for {
		switch x := v.(type) {
		case *ssa.FieldAddr:
			path = fmt.Sprintf(".%d%s", x.Field, path)
			v = x.X
		case *ssa.Alloc:
			return wCell{x, path}, true
		default:
			return wCell{}, false
		}
	}
}

func (w *World) get(v ssa.Value) wLat {
	if w.Seed != nil {
		if c, ok := w.Seed(v); ok {
			return wConst(c)
		}
	}
	switch x := v.(type) {
	case *ssa.Const:
		if x.Value == nil {
			return wTop
		}
		return wConst(x.Value)
	case *ssa.Parameter:
		for i, p := range w.Fn.Params {
			if p == x && i < len(w.args) {
				return w.args[i]
			}
		}
		return wTop
	case *ssa.FreeVar, *ssa.Global, *ssa.Function, *ssa.Builtin:
		return wTop
	}
	if l, ok := w.val[v]; ok {
		return l
	}
	if w.StartBlock != nil {
		return wTop // computed before the starting point
	}
	return wLat{}
}

func wBool(b bool) wLat { return wConst(constant.MakeBool(b)) }

// foldBin: constant folding plus the orderings that hold against the empty string whatever the other operand is.
func foldBin(op token.Token, x, y wLat, t types.Type) wLat {
	if x.k == 0 || y.k == 0 {
		return wLat{}
	}
	isEmpty := func(l wLat) bool {
		return l.k == 1 && l.v.Kind() == constant.String && constant.StringVal(l.v) == ""
	}
	if x.k == 1 && y.k == 1 {
		switch op {
		case token.EQL, token.NEQ, token.LSS, token.LEQ, token.GTR, token.GEQ:
			if x.v.Kind() != y.v.Kind() {
				return wTop
			}
			return wBool(constant.Compare(x.v, op, y.v))
		case token.ADD, token.SUB, token.MUL, token.AND, token.OR, token.XOR, token.AND_NOT:
			if x.v.Kind() == constant.Bool || x.v.Kind() != y.v.Kind() {
				return wTop
			}
			if x.v.Kind() == constant.String && op != token.ADD {
				return wTop
			}
			return wConst(constant.BinaryOp(x.v, op, y.v))
		case token.QUO, token.REM:
			if x.v.Kind() == constant.Int && y.v.Kind() == constant.Int && constant.Sign(y.v) != 0 {
				if op == token.QUO {
					return wConst(constant.BinaryOp(x.v, token.QUO_ASSIGN, y.v))
				}
				return wConst(constant.BinaryOp(x.v, token.REM, y.v))
			}
		}
		return wTop
	}
	// "" op unknown / unknown op ""
	if isEmpty(x) {
		switch op {
		case token.GTR:
			return wBool(false)
		case token.LEQ:
			return wBool(true)
		}
	}
	if isEmpty(y) {
		switch op {
		case token.LSS:
			return wBool(false)
		case token.GEQ:
			return wBool(true)
		}
	}
	return wTop
}

// Run iterates to the fixpoint. args (optional) are the abstract parameters.
func (w *World) Run(args ...wLat) {
	fn := w.Fn
	w.args = args
	w.val = map[ssa.Value]wLat{}
	w.Reach = map[*ssa.BasicBlock]bool{}
	w.Edge = map[[2]*ssa.BasicBlock]bool{}
	w.out = map[*ssa.BasicBlock]map[string]wLat{}
	if len(fn.Blocks) == 0 {
		return
	}
	if w.StartBlock != nil {
		w.Reach[w.StartBlock] = true
	} else {
		w.Reach[fn.Blocks[0]] = true
	}
	cellKey := func(c wCell) string { return fmt.Sprintf("%p%s", c.alloc, c.path) }
	for iter := 0; iter < 200; iter++ {
		changed := false
		set := func(v ssa.Value, l wLat) {
			n := w.val[v].join(l)
			if !n.eq(w.val[v]) {
				w.val[v] = n
				changed = true
			}
		}
		for _, b := range fn.Blocks {
			if !w.Reach[b] {
				continue
			}
			// memory state at entry: join over feasible predecessors
			mem := map[string]wLat{}
			first := true
			for _, p := range b.Preds {
				if !w.Reach[p] || !w.Edge[[2]*ssa.BasicBlock{p, b}] {
					continue
				}
				po := w.out[p]
				if first {
					for k, v := range po {
						mem[k] = v
					}
					first = false
					continue
				}
				// absent = default content on that path; default joined with a known content is unknown
				for k, v := range mem {
					if pv, ok := po[k]; ok {
						mem[k] = v.join(pv)
					} else {
						mem[k] = wTop
					}
				}
				for k := range po {
					if _, ok := mem[k]; !ok {
						mem[k] = wTop
					}
				}
			}
			startIdx := 0
			if b == w.StartBlock {
				if first {
					startIdx = w.StartIndex // no predecessor reaches it (yet): the run begins behind the starting instruction
				} else {
					w.Reentered = true
				}
			}
			for ii, in := range b.Instrs {
				if ii < startIdx {
					continue
				}
				switch x := in.(type) {
				case *ssa.Phi:
					var l wLat
					for i, p := range b.Preds {
						if w.Reach[p] && w.Edge[[2]*ssa.BasicBlock{p, b}] {
							l = l.join(w.get(x.Edges[i]))
						}
					}
					set(x, l)
				case *ssa.BinOp:
					l := foldBin(x.Op, w.get(x.X), w.get(x.Y), x.Type())
					if l.k == 2 && w.Bin != nil {
						if h, ok := w.Bin(x, w.get); ok {
							l = h
						}
					}
					set(x, l)
				case *ssa.UnOp:
					switch x.Op {
					case token.NOT:
						l := w.get(x.X)
						if l.k == 1 && l.v.Kind() == constant.Bool {
							l = wBool(!constant.BoolVal(l.v))
						}
						set(x, l)
					case token.SUB:
						l := w.get(x.X)
						if l.k == 1 && l.v.Kind() == constant.Int {
							l = wConst(constant.UnaryOp(token.SUB, l.v, 0))
						} else if l.k == 1 {
							l = wTop
						}
						set(x, l)
					case token.MUL:
						if l, ok := w.globalArrayLoad(x); ok {
							set(x, l)
						} else if c, ok := cellOf(x.X); ok {
							if l, ok := mem[cellKey(c)]; ok {
								set(x, l)
							} else if w.CellDefault != nil {
								set(x, w.CellDefault(c.alloc, c.path, x.Type()))
							} else {
								set(x, wTop)
							}
						} else {
							set(x, wTop)
						}
					default:
						set(x, wTop)
					}
				case *ssa.Store:
					if c, ok := cellOf(x.Addr); ok {
						key := cellKey(c)
						// a store to a prefix invalidates the cells below it
						for k := range mem {
							if len(k) > len(key) && k[:len(key)] == key {
								delete(mem, k)
							}
						}
						if _, isStruct := deref(x.Addr.Type()).Underlying().(*types.Struct); isStruct {
							delete(mem, key)
						} else {
							l := w.get(x.Val)
							if l.k == 0 {
								l = wTop
							}
							mem[key] = l
						}
					}
				case *ssa.Call:
					// an address of a local handed to a call: the callee may write it
					for _, a := range x.Call.Args {
						if c, ok := cellOf(a); ok {
							key := cellKey(c)
							for k := range mem {
								if len(k) >= len(key) && k[:len(key)] == key {
									delete(mem, k)
								}
							}
						}
					}
					set(x, w.call(x))
				case *ssa.Convert:
					l := w.get(x.X)
					if l.k == 1 {
						fb, ok1 := x.X.Type().Underlying().(*types.Basic)
						tb, ok2 := x.Type().Underlying().(*types.Basic)
						switch {
						case ok1 && ok2 && fb.Info()&types.IsInteger != 0 && tb.Info()&types.IsInteger != 0:
						case ok1 && ok2 && fb.Info()&types.IsString != 0 && tb.Info()&types.IsString != 0:
						default:
							l = wTop
						}
					}
					set(x, l)
				case *ssa.ChangeType:
					set(x, w.get(x.X))
				case *ssa.If:
					l := w.get(x.Cond)
					mark := func(i int) {
						e := [2]*ssa.BasicBlock{b, b.Succs[i]}
						if !w.Edge[e] {
							w.Edge[e] = true
							changed = true
						}
						if !w.Reach[b.Succs[i]] {
							w.Reach[b.Succs[i]] = true
							changed = true
						}
					}
					switch {
					case l.k == 0:
					case l.k == 1 && l.v.Kind() == constant.Bool:
						if constant.BoolVal(l.v) {
							mark(0)
						} else {
							mark(1)
						}
					default:
						mark(0)
						mark(1)
					}
				case *ssa.Jump:
					e := [2]*ssa.BasicBlock{b, b.Succs[0]}
					if !w.Edge[e] {
						w.Edge[e] = true
						changed = true
					}
					if !w.Reach[b.Succs[0]] {
						w.Reach[b.Succs[0]] = true
						changed = true
					}
				case *ssa.Lookup:
					set(x, w.lookupConst(x))
				case *ssa.Extract:
					if lk, ok := x.Tuple.(*ssa.Lookup); ok && lk.CommaOk {
						set(x, w.lookupPart(lk, x.Index))
					} else {
						set(x, wTop)
					}
				default:
					if v, ok := in.(ssa.Value); ok {
						set(v, wTop)
					}
				}
			}
			// publish the exit state
			old := w.out[b]
			same := old != nil && len(old) == len(mem)
			if same {
				for k, v := range mem {
					if ov, ok := old[k]; !ok || !ov.eq(v) {
						same = false
						break
					}
				}
			}
			if !same {
				w.out[b] = mem
				changed = true
			}
		}
		if !changed {
			return
		}
	}
}

func (w *World) call(x *ssa.Call) wLat {
	if w.Call != nil {
		if l, ok := w.Call(x, w.get); ok {
			return l
		}
	}
	if bi, ok := x.Call.Value.(*ssa.Builtin); ok && bi.Name() == "len" && len(x.Call.Args) == 1 {
		l := w.get(x.Call.Args[0])
		if l.k == 1 && l.v.Kind() == constant.String {
			return wConst(constant.MakeInt64(int64(len(constant.StringVal(l.v)))))
		}
		if l.k == 0 {
			return wLat{}
		}
		return wTop
	}
	sc := x.Call.StaticCallee()
	if sc == nil || w.Interp == nil || !w.Interp(sc) || w.depth >= 3 || len(sc.Blocks) == 0 {
		return wTop
	}
	var args []wLat
	for _, a := range x.Call.Args {
		l := w.get(a)
		if l.k == 0 {
			return wLat{}
		}
		args = append(args, l)
	}
	sub := &World{Fn: sc, Call: w.Call, Bin: w.Bin, Interp: w.Interp, depth: w.depth + 1}
	sub.Run(args...)
	var res wLat
	for _, b := range sc.Blocks {
		if !sub.Reach[b] {
			continue
		}
		if ret, ok := b.Instrs[len(b.Instrs)-1].(*ssa.Return); ok {
			if len(ret.Results) != 1 {
				return wTop
			}
			l := sub.get(ret.Results[0])
			if l.k == 0 {
				l = wTop
			}
			res = res.join(l)
		}
	}
	if res.k == 0 {
		return wTop
	}
	return res
}

// pureFunc: a function without stores, calls to anything but pure functions, or loops that depend on unknowns is safe to evaluate;
// the approximation used here is "no Store/MapUpdate/Send/Go/Defer and only static calls to functions that are pure themselves".
func pureFunc(fn *ssa.Function, depth int) bool {
	if fn == nil || len(fn.Blocks) == 0 || depth > 3 {
		return false
	}
	ok := true
	instrsOf(fn, func(in ssa.Instruction) {
		switch x := in.(type) {
		case *ssa.Store:
			// a store into a local (a spilled value receiver or parameter) is not an effect
			if _, isLocal := traceAddrOpt(x.Addr, false).Root.(*ssa.Alloc); !isLocal {
				ok = false
			}
		case *ssa.MapUpdate, *ssa.Send, *ssa.Go, *ssa.Defer, *ssa.Panic:
			ok = false
		case *ssa.Call:
			if _, isB := x.Call.Value.(*ssa.Builtin); isB {
				return
			}
			sc := x.Call.StaticCallee()
			if sc != nil && sc.Pkg != nil {
				switch sc.Pkg.Pkg.Path() {
				case "unicode", "unicode/utf8", "strings", "strconv":
					return // side-effect-free library functions
				}
			}
			if sc == nil || sc == fn || !pureFunc(sc, depth+1) {
				ok = false
			}
		}
	})
	return ok
}

// Constant tables: a package-level map or array that its package's initialiser fills with constant keys and values and that no
// other function of the program stores to is read like a switch.

type constTable struct {
	vals map[string]constant.Value // key (exact string) -> value; only entries whose value is a constant
	keys map[string]bool           // every key written
	ok   bool
}

var constTables = map[*ssa.Global]*constTable{}

func tableOf(g *ssa.Global) *constTable {
	if t, ok := constTables[g]; ok {
		return t
	}
	t := &constTable{vals: map[string]constant.Value{}, keys: map[string]bool{}}
	constTables[g] = t
	if g.Pkg == nil {
		return t
	}
	init := g.Pkg.Func("init")
	if init == nil {
		return t
	}
	t.ok = true
	var mapVal ssa.Value
	instrsOf(init, func(in ssa.Instruction) {
		if st, ok := in.(*ssa.Store); ok && st.Addr == ssa.Value(g) {
			mapVal = st.Val
		}
	})
	instrsOf(init, func(in ssa.Instruction) {
		switch x := in.(type) {
		case *ssa.MapUpdate:
			if mapVal != nil && x.Map == mapVal {
				k, ok := x.Key.(*ssa.Const)
				if !ok || k.Value == nil {
					t.ok = false
					return
				}
				t.keys[k.Value.ExactString()] = true
				if v, ok := x.Value.(*ssa.Const); ok && v.Value != nil {
					t.vals[k.Value.ExactString()] = v.Value
				}
			}
		case *ssa.Store:
			if ia, ok := x.Addr.(*ssa.IndexAddr); ok && ia.X == ssa.Value(g) {
				k, ok := ia.Index.(*ssa.Const)
				if !ok || k.Value == nil {
					t.ok = false
					return
				}
				t.keys[k.Value.ExactString()] = true
				if v, ok := x.Val.(*ssa.Const); ok && v.Value != nil {
					t.vals[k.Value.ExactString()] = v.Value
				}
			}
		}
	})
	// written anywhere else?
	for _, m := range g.Pkg.Members {
		f, ok := m.(*ssa.Function)
		if !ok || f == init {
			continue
		}
		fs := append([]*ssa.Function{f}, f.AnonFuncs...)
		for _, ff := range fs {
			instrsOf(ff, func(in ssa.Instruction) {
				switch x := in.(type) {
				case *ssa.MapUpdate:
					if r, ok := traceAddr(x.Map).Root.(*ssa.Global); ok && r == g {
						t.ok = false
					}
				case *ssa.Store:
					if r, ok := traceAddr(x.Addr).Root.(*ssa.Global); ok && r == g {
						t.ok = false
					}
				}
			})
		}
	}
	return t
}

func globalOfLoad(v ssa.Value) *ssa.Global {
	if u, ok := v.(*ssa.UnOp); ok && u.Op == token.MUL {
		g, _ := u.X.(*ssa.Global)
		return g
	}
	return nil
}

func (w *World) lookupConst(x *ssa.Lookup) wLat {
	if x.CommaOk {
		return wTop
	}
	return w.lookupPart(x, 0)
}

func (w *World) lookupPart(x *ssa.Lookup, part int) wLat {
	g := globalOfLoad(x.X)
	if g == nil {
		return wTop
	}
	k := w.get(x.Index)
	if k.k == 0 {
		return wLat{}
	}
	t := tableOf(g)
	if k.k != 1 || !t.ok {
		return wTop
	}
	key := k.v.ExactString()
	if part == 1 {
		return wBool(t.keys[key])
	}
	if v, ok := t.vals[key]; ok {
		return wConst(v)
	}
	return wTop
}

// globalArrayLoad folds *(&table[i]) for a constant table and a constant index.
func (w *World) globalArrayLoad(x *ssa.UnOp) (wLat, bool) {
	ia, ok := x.X.(*ssa.IndexAddr)
	if !ok {
		return wLat{}, false
	}
	g, ok := ia.X.(*ssa.Global)
	if !ok {
		return wLat{}, false
	}
	k := w.get(ia.Index)
	if k.k == 0 {
		return wLat{}, true
	}
	t := tableOf(g)
	if k.k != 1 || !t.ok {
		return wTop, true
	}
	if v, ok := t.vals[k.v.ExactString()]; ok {
		return wConst(v), true
	}
	if at, ok := deref(g.Type()).Underlying().(*types.Array); ok && !t.keys[k.v.ExactString()] {
		// an element the literal does not mention is the zero value
		if b, ok := at.Elem().Underlying().(*types.Basic); ok {
			switch {
			case b.Info()&types.IsInteger != 0:
				return wConst(constant.MakeInt64(0)), true
			case b.Info()&types.IsBoolean != 0:
				return wBool(false), true
			case b.Info()&types.IsString != 0:
				return wConst(constant.MakeString("")), true
			}
		}
	}
	return wTop, true
}
