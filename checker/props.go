package main

import (
	"go/types"
	"strings"
)

// Registry: which rules decide which property. Explanations are copied into the evidence on every run.

var commonAssumptions = []string{
	"go/packages + go/types + go/ssa (golang.org/x/tools v0.29.0, vendored) model Go faithfully",
	"the VTA call graph (seeded by CHA) over-approximates dynamic dispatch; no reflection/unsafe calls hide edges (checked by C19.R4)",
	"the nine packages of the baseline build are the program; libvorejs/src does not compile at the pinned commit and is not analysed",
}

func init() {
	register(&Property{
		ID: "C13",
		Explanation: "Decides structural necessary conditions of definition transparency and of command/run/compile independence: " +
			"(R1) no adjust method writes through a reference obtained from its receiver (relocation never mutates the stored pattern); " +
			"(R2) every instruction field that receives a program counter in the generator is shifted by adjust; " +
			"(R3) no code reachable from Run/RunFiles stores into memory owned by the compiled program (types of bytecode/ast, *Vore); " +
			"(R4) every command generator installs a fresh variable scope before generating search instructions; " +
			"(R5) package-level state written during Compile is re-initialised before use. " +
			"Does NOT decide that an inlined copy and a call behave alike in the VM, nor uniqueness of the random loop ids." +
			" Round 4: (R10) no address of a per-loop variable is kept across iterations (go 1.19 loop-variable semantics)." +
			" (R11) the identity of a subroutine activation is an offset-derived instruction field (same rule as C01.R10)." +
			" Round 5: (R12) group numbering restarts with every regexp literal." +
			" Round 6: (R13) steering instructions cannot fail; (R14) the command's own names win over stored definitions; (R15) every field of a VM record that is read is also written somewhere; (R16) every process run gets its own environment." +
			" Round 8: (R17) in the text entry point each command searches the whole text given, on a reader made for it, and nothing computed for one command reaches the next. (R18) what the generator forgets between the copies of an unrolled loop body does not depend on the value a name was entered with (captures -1, subroutines their offset)." +
			" Round 9: R3 also counts an append to a re-slice of a list of the program as a write; R17 also covers the loops over files (only a range index, the result list and the list of names are carried). (R19) no package-level variable is reached without synchronisation by compile- or run-time code (shared with C19: a memo that outlives a run answers for the next program).",
		Assumptions: commonAssumptions,
		Rules: []RuleFn{
			{Name: "C13.R1", Run: func(c *Ctx) { ruleAdjustPure(c, "C13.R1") }},
			{Name: "C13.R2", Run: func(c *Ctx) { ruleRelocationComplete(c, "C13.R2") }},
			{Name: "C13.R7", Run: func(c *Ctx) { ruleRelocationScope(c, "C13.R7") }},
			{Name: "C13.R8", Run: func(c *Ctx) { ruleSnapshotIsolation(c, "C13.R8") }},
			{Name: "C13.R9", Run: func(c *Ctx) { ruleOnePassGeneration(c, "C13.R9") }},
			{Name: "C13.R10", Run: func(c *Ctx) {
				ruleLoopVarAddressNotKept(c, "C13.R10", []string{"ast", "bytecode", "engine", "libvore", "files"})
			}},
			{Name: "C13.R11", Run: func(c *Ctx) { ruleActivationIdentity(c, "C13.R11") }},
			{Name: "C13.R12", Run: func(c *Ctx) { ruleGroupNumbering(c, "C13.R12", false) }},
			{Name: "C13.R13", Run: func(c *Ctx) { ruleSteeringInstructionsCannotFail(c, "C13.R13") }},
			{Name: "C13.R14", Run: func(c *Ctx) { ruleScopeBeforeDefinitions(c, "C13.R14") }},
			{Name: "C13.R15", Run: func(c *Ctx) { ruleRecordFieldsReadAreWritten(c, "C13.R15") }},
			{Name: "C13.R16", Run: func(c *Ctx) { ruleProcessEnvFresh(c, "C13.R16") }},
			{Name: "C13.R17", Run: func(c *Ctx) { ruleCommandsIndependent(c, "C13.R17") }},
			{Name: "C13.R18", Run: func(c *Ctx) { ruleUnrolledBodiesForgetEveryDeclaration(c, "C13.R18") }},
			{Name: "C13.R19", Run: func(c *Ctx) { ruleGlobals(c, "C13.R19", c.apiRoots(), "Compile/CompileFile/(*Vore).Run/RunFiles") }},
			{Name: "C13.R3", Run: func(c *Ctx) { ruleProgramReadOnly(c, "C13.R3") }},
			{Name: "C13.R4", Run: func(c *Ctx) { ruleCommandScope(c, "C13.R4") }},
			{Name: "C13.R6", Run: func(c *Ctx) { ruleAttemptFresh(c, "C13.R6") }},
			{Name: "C13.R5", Run: func(c *Ctx) { ruleGlobalsReinit(c, "C13.R5") }},
		},
	})
	register(&Property{
		ID: "C01",
		Explanation: "The input/output equivalence with a reference matcher is NOT decided. Decided are four structural mechanisms named by the property's anchors: (R1) dispatch completeness - every concrete node/instruction type converted to a pipeline interface has a case of the same pointer-ness in the consumer's type switch, and the character-class enum switches are exhaustive; (R2) relocation completeness - every instruction field that receives an offset-derived program counter in the generator is shifted by adjust; (R3) scan discipline - the next start position of findMatches is the end of the successful non-empty attempt or exactly one byte further, line/column updated from the byte stepped over, loop exit at the end of input; attempts start from a fresh VM state; (R4) adjust is applied only to the stored body of a definition; (R5) greedy/lazy loop protocol as a typestate: where the checkpoint sits relative to the continuing and the leaving branch; (R6) every checkpoint popped from the backtrack stack is resumed on all paths, and checkpoints are isolated snapshots (R6b = C02.R1). " +
			"Not decided: per-instruction semantics, priority order of alternatives, what each jump target means to the VM." +
			" Round 4: (R8) with every read at the current offset returning \"\" and the offset equal to reader.Size(), no primitive reaches CONSUME (helpers that consume for their callers hand the obligation on; CONSUME(reader.Size()) and progress-tested CONSUMEs exempt); (R9) the zero-width cut is control-dependent on `iteration >= MinLoops`." +
			" (R10) the identity of a subroutine activation is an offset-derived instruction field." +
			" Round 5: (R11) the empty text matches with zero width; (R12) Reader.Read/ReadAt return nothing or exactly the bytes asked for; (R13) the generator does not reorder AST items; (R14) renumbering passes cover every program-counter field." +
			" Round 6: (R15) the handlers of steering instructions (call, jump, branch, capture/subroutine/not-in markers) cannot reach BACKTRACK; (R16) a MatchLiteral carries the Value, Not and Caseless of one AST string node unchanged." +
			" Round 8: (R17) with one byte left that is a newline (READ(1) = \"\\n\", every longer read = \"\") the line-end primitive reaches NEXT and not BACKTRACK; the same for a final \"\\r\\n\". Round 9: (R18) no package-level state is shared between runs without synchronisation (shared with C19/C13: verdicts remembered per pattern name and text answer for another program). (R19) as C14.R19.",
		Assumptions: commonAssumptions,
		Rules: []RuleFn{
			{Name: "C01.R1", Run: func(c *Ctx) {
				ruleTypeSwitchComplete(c, "C01.R1", []string{"bytecode", "engine"}, func(n *types.Named) bool {
					switch n.Obj().Name() {
					case "AstCommand", "AstSetBody", "AstExpression", "AstLiteral", "AstListable", "Command", "SearchInstruction":
						return true
					}
					return false
				}, 5)
				ruleEnumExhaustive(c, "C01.R1", []string{"engine", "ast"}, func(es *enumSwitch) bool {
					return strings.HasSuffix(types.TypeString(es.typ, shortQual), "AstCharacterClassType")
				}, 2)
			}},
			{Name: "C01.R2", Run: func(c *Ctx) { ruleRelocationComplete(c, "C01.R2") }},
			{Name: "C01.R4", Run: func(c *Ctx) { ruleRelocationScope(c, "C01.R4") }},
			{Name: "C01.R5", Run: func(c *Ctx) { ruleLoopProtocol(c, "C01.R5") }},
			{Name: "C01.R6", Run: func(c *Ctx) { ruleBacktrackResumesTop(c, "C01.R6"); ruleSnapshotIsolation(c, "C01.R6b") }},
			{Name: "C01.R7", Run: func(c *Ctx) { ruleAlternativeOrder(c, "C01.R7") }},
			{Name: "C01.R8", Run: func(c *Ctx) { ruleNothingConsumedAtEnd(c, "C01.R8") }},
			{Name: "C01.R9", Run: func(c *Ctx) { ruleZeroWidthCutRespectsMinimum(c, "C01.R9") }},
			{Name: "C01.R10", Run: func(c *Ctx) { ruleActivationIdentity(c, "C01.R10") }},
			{Name: "C01.R11", Run: func(c *Ctx) { ruleEmptyTextMatches(c, "C01.R11") }},
			{Name: "C01.R12", Run: func(c *Ctx) { ruleReaderAllOrNothing(c, "C01.R12") }},
			{Name: "C01.R13", Run: func(c *Ctx) { ruleNoReorderingInGenerator(c, "C01.R13") }},
			{Name: "C01.R14", Run: func(c *Ctx) { ruleRenumberingComplete(c, "C01.R14") }},
			{Name: "C01.R15", Run: func(c *Ctx) { ruleSteeringInstructionsCannotFail(c, "C01.R15") }},
			{Name: "C01.R16", Run: func(c *Ctx) { ruleLiteralInstructionIsTheLiteral(c, "C01.R16") }},
			{Name: "C01.R17", Run: func(c *Ctx) { ruleLineEndsBeforeLastNewline(c, "C01.R17") }},
			{Name: "C01.R18", Run: func(c *Ctx) { ruleGlobals(c, "C01.R18", c.apiRoots(), "Compile/CompileFile/(*Vore).Run/RunFiles") }},
			{Name: "C01.R19", Run: func(c *Ctx) { ruleLoopBoundsAsWritten(c, "C01.R19") }},
			{Name: "C01.R3", Run: func(c *Ctx) { ruleScanDiscipline(c, "C01.R3"); ruleAttemptFresh(c, "C01.R3b") }},
		},
	})
	register(&Property{
		ID: "C02",
		Explanation: "Decides the structural conditions that make reported variables the bindings of the successful path: (R1) snapshot isolation - every reference-typed component of the VM state that is mutated in place anywhere in package engine (computed: methods that write through their receiver, and the fields they are invoked on) is freshly allocated, deeply, in the value returned by Copy; CHECKPOINT pushes such a copy; (R2) STARTVAR records len(currentMatch), ENDVAR binds currentMatch[startOffset:] on every returning path, MATCHVAR matches the bound text unchanged; (R3) every instruction handler neither stores through nor calls a mutating method on its incoming state and returns its Copy; (R4) every attempt starts from a freshly created state. " +
			"Scoped exclusions: the saved snapshots reachable only through `backtrack` (LIFO argument, stated) and the shared reader. Does NOT decide which binding is the most recent one when a name is bound repeatedly, nor named-loop nesting." +
			" Round 4: (R7) the restore used by BACKTRACK assigns every field of the state that matching writes, from the same field of the checkpoint; (R8) a loop record's bindings are indexed with that record's own iteration counter." +
			" Round 5: (R9) the empty text matches with zero width; (R10) a variable reference is not compiled to a literal." +
			" Round 6: (R11) a stored definition is read only where the lookup in the command's own scope has missed; (R12) MATCHVAR reads from every table INSERTVARIABLE writes to, and its lookup helper asks the environment before it answers a miss; (R13) an unbound back-reference backtracks." +
			" Round 8: (R14) a loop iteration that consumed nothing does not go round again (shared with C10).",
		Assumptions: commonAssumptions,
		Rules: []RuleFn{
			{Name: "C02.R1", Run: func(c *Ctx) { ruleSnapshotIsolation(c, "C02.R1") }},
			{Name: "C02.R2", Run: func(c *Ctx) { ruleBindingProvenance(c, "C02.R2") }},
			{Name: "C02.R3", Run: func(c *Ctx) { ruleHandlersOwnCopy(c, "C02.R3") }},
			{Name: "C02.R4", Run: func(c *Ctx) { ruleAttemptFresh(c, "C02.R4") }},
			{Name: "C02.R5", Run: func(c *Ctx) { ruleValueCopyDeep(c, "C02.R5"); ruleBoundTextIsConsumedText(c, "C02.R6") }},
			{Name: "C02.R7", Run: func(c *Ctx) { ruleRestoreComplete(c, "C02.R7") }},
			{Name: "C02.R8", Run: func(c *Ctx) { ruleIterationKeyFromSameRecord(c, "C02.R8") }},
			{Name: "C02.R9", Run: func(c *Ctx) { ruleEmptyTextMatches(c, "C02.R9") }},
			{Name: "C02.R10", Run: func(c *Ctx) { ruleReferenceNotFolded(c, "C02.R10") }},
			{Name: "C02.R11", Run: func(c *Ctx) { ruleScopeBeforeDefinitions(c, "C02.R11") }},
			{Name: "C02.R12", Run: func(c *Ctx) { ruleBindingReaderCoversWriter(c, "C02.R12") }},
			{Name: "C02.R13", Run: func(c *Ctx) { ruleUnboundReferenceFails(c, "C02.R13") }},
			{Name: "C02.R14", Run: func(c *Ctx) { ruleZeroWidthGuard(c, "C02.R14") }},
		},
	})
	register(&Property{
		ID: "C03",
		Explanation: "Decides the inductive skeleton behind `every match is a faithful, ordered, located slice`: (R1) single writer - the text/offset/line/column fields of the VM state are stored only by CONSUME, Set and the constructors; (R2) coherent step - CONSUME appends exactly the string it read and advances the offset by that string's length, updating line/column in a range over the same string; (R3) the match record is built from the start/current counters, the value from currentMatch, the number from the parameter, and CreateState starts current* and start* from the same argument with an empty text; (R4) a match is pushed only when non-empty, numbered matchNumber+1, and the next attempt starts at its end (scan discipline). " +
			"Does NOT decide that Reader.Read returns the bytes at the offset (C07), column arithmetic for multi-byte input, nor the arithmetic itself." +
			" Round 4: (R7) the number handed to MakeMatch is the scan's match counter + 1, the counter being identified from the loop bound." +
			" Round 5: (R8) ds.NewRange keeps its arguments in their places." +
			" Round 7: (R9) a search runs on a reader opened for that search." +
			" Round 9: (R10) nothing but the result list travels from one command (or file) to the next (shared with C13).",
		Assumptions: commonAssumptions,
		Rules: []RuleFn{
			{Name: "C03.R1", Run: func(c *Ctx) { ruleSingleWriter(c, "C03.R1") }},
			{Name: "C03.R2", Run: func(c *Ctx) { ruleCoherentStep(c, "C03.R2") }},
			{Name: "C03.R3", Run: func(c *Ctx) { ruleRecordConstruction(c, "C03.R3") }},
			{Name: "C03.R4", Run: func(c *Ctx) { ruleScanDiscipline(c, "C03.R4"); ruleWindow(c, "C03.R4b") }},
			{Name: "C03.R5", Run: func(c *Ctx) { ruleBindingProvenance(c, "C03.R5") }},
			{Name: "C03.R6", Run: func(c *Ctx) { ruleReaderOffsetsAreFileOffsets(c, "C03.R6") }},
			{Name: "C03.R7", Run: func(c *Ctx) { ruleMatchNumberProvenance(c, "C03.R7") }},
			{Name: "C03.R8", Run: func(c *Ctx) { ruleRangeKeepsOrder(c, "C03.R8") }},
			{Name: "C03.R9", Run: func(c *Ctx) { ruleReaderPerSearch(c, "C03.R9") }},
			{Name: "C03.R10", Run: func(c *Ctx) { ruleCommandsIndependent(c, "C03.R10") }},
		},
	})
	register(&Property{
		ID: "C05",
		Explanation: "Decides the structural conditions of `a replacement is the concatenation of its with-items for that match`: (R1) dispatch completeness for with-items (AstAtom -> generator, ReplaceInstruction -> executeReplace); (R2) every store to the replacement text appends to the previous text, and match records are written only by MakeMatch (plus Replacement by the two write primitives); (R3) every match gets a replacer state of its own - the state the replacer program starts from, found by role, is created per match (or per call of the helper that handles one match) from a deep copy of that match's variables, and its match is what is reported; (R3b) no table that is written while one match is replaced is installed into the state of the next; (R7) every run of a transform or predicate gets an environment map created for that run; (R6) the kind of a with-item depends only on the transform table, and WRITEVAR appends exactly when the name is bound to a string. " +
			"Does NOT decide what a transform computes (C11) nor the order of items beyond program order." +
			" Round 4: (R10) the built-in matchNumber derives from Match.MatchNumber." +
			" (R11) with every status read fixed to the one set by `return`, no loop that runs process statements goes round again." +
			" Round 5: (R12) captures are bound as strings for process code." +
			" Round 6: (R13) with every status read fixed to NEXT the loop executor cannot return: a `loop` ends only by break or return." +
			" Round 8: (R14) a ReplaceString built by the generator carries the Value of one AST string node unchanged; R10 now also requires the two bindings of matchNumber in the tables that replacers and transforms read." +
			" Round 9: (R15) nothing at run time writes into the compiled program (shared with C13: a with-list resolved in place keeps the values of the first run).",
		Assumptions: commonAssumptions,
		Rules: []RuleFn{
			{Name: "C05.R1", Run: func(c *Ctx) {
				ruleTypeSwitchComplete(c, "C05.R1", []string{"bytecode", "engine"}, func(n *types.Named) bool {
					return n.Obj().Name() == "AstAtom" || n.Obj().Name() == "ReplaceInstruction"
				}, 2)
			}},
			{Name: "C05.R2", Run: func(c *Ctx) { ruleReplacementAccumulates(c, "C05.R2") }},
			{Name: "C05.R3", Run: func(c *Ctx) { rulePerMatchReplacer(c, "C05.R3") }},
			{Name: "C05.R3b", Run: func(c *Ctx) { ruleReplacerOwnsItsTables(c, "C05.R3b") }},
			{Name: "C05.R7", Run: func(c *Ctx) { ruleProcessEnvFresh(c, "C05.R7") }},
			{Name: "C05.R8", Run: func(c *Ctx) { ruleBuiltinsWin(c, "C05.R8") }},
			{Name: "C05.R9", Run: func(c *Ctx) { ruleTransformBoundAtCompileTime(c, "C05.R9") }},
			{Name: "C05.R10", Run: func(c *Ctx) { ruleMatchNumberBuiltin(c, "C05.R10") }},
			{Name: "C05.R11", Run: func(c *Ctx) { ruleReturnStopsStatements(c, "C05.R11") }},
			{Name: "C05.R12", Run: func(c *Ctx) { ruleCapturesAreStrings(c, "C05.R12") }},
			{Name: "C05.R13", Run: func(c *Ctx) { ruleProcessLoopEndsOnlyOnRequest(c, "C05.R13") }},
			{Name: "C05.R14", Run: func(c *Ctx) { ruleReplaceStringIsTheLiteral(c, "C05.R14") }},
			{Name: "C05.R15", Run: func(c *Ctx) { ruleProgramReadOnly(c, "C05.R15") }},
			{Name: "C05.R5", Run: func(c *Ctx) { rulePlumbing(c, "C05.R5") }},
			{Name: "C05.R6", Run: func(c *Ctx) { ruleItemKinds(c, "C05.R6") }},
		},
	})
	register(&Property{
		ID: "C04",
		Explanation: "Decides that the amount clause can only select a window of one fixed match sequence: (R1) non-interference - in the scan loop of findMatches neither the next scan position/line/column/match counter, nor the arguments of CreateState and MakeMatch, are data-dependent on skip/take/last or control-dependent on a branch whose condition depends on them (loop-exit branches exempt: they truncate), and the same holds for everything findMatches stores into the VM state or passes to a function together with it (all included); (R2) a match is pushed exactly under success && non-empty && matchNumber >= skip, numbered matchNumber+1, the loop bound is matchNumber < skip+take, Limit(last) follows every push when last != 0 and drops from the front; (R3) the five clause forms of parse_amount return the documented (all, skip, take, last) tuples; (R4) the four values keep their identity from parser to generator to findMatches for both find and replace; (R5) match records (number, offsets, text, variables) are written by MakeMatch only, so no window renumbers them. " +
			"Does NOT decide the queue's arithmetic beyond that Limit pops from the front." +
			" Round 4: (R6) the number handed to MakeMatch is the scan's match counter + 1; (R7) each match gets a replacer state of its own." +
			" (R8) with `all` fixed to true, collecting a match still depends on a test of skip." +
			" Round 5: (R9) every match of the window yields one replaced match." +
			" Round 8: (R10) nothing at run time writes into the compiled program (skip/take/last are read from it for every file); (R11) commands are independent of each other in the text entry point.",
		Assumptions: commonAssumptions,
		Rules: []RuleFn{
			{Name: "C04.R1", Run: func(c *Ctx) { ruleScanNonInterference(c, "C04.R1") }},
			{Name: "C04.R2", Run: func(c *Ctx) { ruleWindow(c, "C04.R2") }},
			{Name: "C04.R3", Run: func(c *Ctx) { ruleAmountTable(c, "C04.R3") }},
			{Name: "C04.R4", Run: func(c *Ctx) { rulePlumbing(c, "C04.R4") }},
			{Name: "C04.R5", Run: func(c *Ctx) { ruleWhoWritesMatch(c, "C04.R5", false) }},
			{Name: "C04.R6", Run: func(c *Ctx) { ruleMatchNumberProvenance(c, "C04.R6") }},
			{Name: "C04.R7", Run: func(c *Ctx) { rulePerMatchReplacer(c, "C04.R7") }},
			{Name: "C04.R8", Run: func(c *Ctx) { ruleSkipAppliesWhenAllIsSet(c, "C04.R8") }},
			{Name: "C04.R9", Run: func(c *Ctx) { ruleEveryMatchIsReplaced(c, "C04.R9") }},
			{Name: "C04.R10", Run: func(c *Ctx) { ruleProgramReadOnly(c, "C04.R10") }},
			{Name: "C04.R11", Run: func(c *Ctx) { ruleCommandsIndependent(c, "C04.R11") }},
		},
	})
	register(&Property{
		ID: "C08",
		Explanation: "Decides structural necessary conditions of `Compile never panics, never loops, never returns holes`: (R1) every lexer loop that reads input has no feasible cycle once read() returns the end-of-input sentinel (constant propagation of 0 through the loop, folding of the pure character predicates); (R2) every explicit panic reachable from Compile is the default of an exhaustive switch, the fall-out of a complete type switch, or in a frozen trusted table; (R3) no parse function's (nil, index, nil) return reaches a conversion or dereference without a nil test; (R4) every index into the regex pattern string and into the filtered expression-token slice is dominated by a comparison with len, with the entry-parameter obligation discharged at every call site; (R5) a typestate with function summaries over the token parser: an index may equal len(tokens) only when it leaves a scan loop that compares its counter with len(tokens) and has no exit on the EOF kind; such an index must pass a `< len(tokens)` test before it indexes the list or reaches a callee that does; (R6) TokenType.PP is exhaustive and error constructors never get a nil token; (R7) the generator's and checker's type switches turn an unmatched or nil node into an error; (R8) the API functions returning (*Vore, error) return a program built on that path, a non-nil error, or both results of a function held to the same rule - never (nil, nil); (R9) every HexToAscii call is dominated by two IsHex tests; (R10) every loop of the generator and checker is counted or a range iteration. " +
			"Does NOT decide stack depth on deeply nested input nor memory/time of large unrolled loops (`exactly 1000000000 'a'`)." +
			" Round 4: (R11) every mutex locked in the compile path is released on every path out of the function; (R12) variable indexes into fixed-size tables are bounded by the table length." +
			" Round 5: (R13) getTokens stops on every EOF token." +
			" Round 6: (R14) every integer division between source text and program has a divisor that is a non-zero constant or was tested against zero." +
			" (R15) no pointer that can be nil is converted to the error interface; (R16) constant indexes into program texts and lists in the generator are guarded by a length test." +
			" Round 8: (R17) a text whose failed strconv conversion panics has a constant bound on its length under which every text fits the bit size; (R18) nothing in package ast appends a foreign token to a re-slice of, or stores into, the token list it was handed.",
		Assumptions: append([]string{"tokens always ends in an EOF token and consumeIgnoreableTokens never steps past it (axioms A1, A2)", "bufio.Reader's end of input is sticky (A3)"}, commonAssumptions...),
		Rules: []RuleFn{
			{Name: "C08.R1", Run: func(c *Ctx) { ruleEOFWorld(c, "C08.R1") }},
			{Name: "C08.R2", Run: func(c *Ctx) {
				rulePanicInventory(c, "C08.R2", c.compileRoots(), []string{"ast", "bytecode", "libvore", "ds"}, map[string]string{
					"msg:\"You can't pop that much!!!\"": "guards the position stack; reached only with amount=1 after at least one rune was read in the current token (value-level invariant of the state machine)",
					"msg:\"COULDN'T CONVERT\"":           "ParseInt on two runes that the only call sites have just tested with IsHex",
				}, 4)
			}},
			{Name: "C08.R3", Run: func(c *Ctx) {
				ruleNilSuccess(c, "C08.R3", map[string]string{
					"ast.parse_regexp_class_ranges<-parse_regexp_class_atom_string": "frozen exception: the callee returns nil only on ']', which the caller's loop condition (regexp[next_index] != ']') excludes for the first atom; the second call is nil-checked",
				})
			}},
			{Name: "C08.R4", Run: func(c *Ctx) { ruleIndexGuards(c, "C08.R4") }},
			{Name: "C08.R5", Run: func(c *Ctx) { ruleTokenIndexInBounds(c, "C08.R5") }},
			{Name: "C08.R6", Run: func(c *Ctx) { ruleErrorsPrintable(c, "C08.R6") }},
			{Name: "C08.R7", Run: func(c *Ctx) { ruleTypeSwitchTotal(c, "C08.R7") }},
			{Name: "C08.R8", Run: func(c *Ctx) { ruleCompileNeverNilNil(c, "C08.R8") }},
			{Name: "C08.R9", Run: func(c *Ctx) { ruleHexGuard(c, "C08.R9") }},
			{Name: "C08.R10", Run: func(c *Ctx) { ruleBoundedLoops(c, "C08.R10", []string{"bytecode"}) }},
			{Name: "C08.R11", Run: func(c *Ctx) { ruleLocksReleased(c, "C08.R11", []string{"ast", "bytecode", "libvore"}) }},
			{Name: "C08.R12", Run: func(c *Ctx) { ruleArrayIndexBounded(c, "C08.R12", []string{"ast", "bytecode", "libvore", "ds"}) }},
			{Name: "C08.R13", Run: func(c *Ctx) { ruleTokenListEndsAtEOF(c, "C08.R13") }},
			{Name: "C08.R14", Run: func(c *Ctx) { ruleNoUnguardedDivision(c, "C08.R14") }},
			{Name: "C08.R15", Run: func(c *Ctx) { ruleNoTypedNilError(c, "C08.R15") }},
			{Name: "C08.R16", Run: func(c *Ctx) { ruleConstantIndexesGuarded(c, "C08.R16", []string{"bytecode"}) }},
			{Name: "C08.R17", Run: func(c *Ctx) { ruleParsePanicInputBounded(c, "C08.R17") }},
			{Name: "C08.R18", Run: func(c *Ctx) { ruleTokenListReadOnly(c, "C08.R18") }},
		},
	})
	register(&Property{
		ID: "C06",
		Explanation: "Decides the structural part of `replace writes the exact splice and each mode touches only its file`: (R1) the mode table of searchReplace - NEW opens only <file>+suffix for writing, OVERWRITE loads the original into memory before the truncating open of the file itself, NOTHING writes to memory; Run uses NOTHING and RunFiles forces NOTHING under -filenames; (R2) who may modify the file system: in the library only files.WriterFromFile opens for writing (called only by searchReplace) and RunFiles renames under processFilenames; nothing reachable from searchFind can write; (R3) the writer is opened with create|truncate|write; (R4) cursor pairing in the splice loop: the gap and the replacement are written at consecutive positions, the cursors advance by gap+len(replacement) and gap+len(match) on every path around the loop, the tail is copied, the writer is closed; (R5) every command searches a file through a reader opened for it in the same loop iteration, so a later command reads what an earlier one wrote. " +
			"Does NOT decide the arithmetic itself (that gaps and values tile the input), short reads, or MemoryStream/OS write semantics." +
			" Round 4: (R7) every Read([]byte) implementation in package files delivers len(p) bytes when it returns no error." +
			" Round 6: (R8) the match record is built from the counters and the consumed text (shared with C03). Round 9: (R9) Writer.WriteAt hands the data parameter itself to the underlying Write (a text made out of the data has another length than the write cursor assumes).",
		Assumptions: commonAssumptions,
		Rules: []RuleFn{
			{Name: "C06.R1", Run: func(c *Ctx) { ruleModeTable(c, "C06.R1") }},
			{Name: "C06.R2", Run: func(c *Ctx) { ruleWhoWritesFiles(c, "C06.R2") }},
			{Name: "C06.R4", Run: func(c *Ctx) { ruleSpliceLoop(c, "C06.R4") }},
			{Name: "C06.R5", Run: func(c *Ctx) { ruleReaderPerSearch(c, "C06.R5") }},
			{Name: "C06.R6", Run: func(c *Ctx) { ruleReaderOffsetsAreFileOffsets(c, "C06.R6") }},
			{Name: "C06.R7", Run: func(c *Ctx) { ruleFullReads(c, "C06.R7") }},
			{Name: "C06.R8", Run: func(c *Ctx) { ruleRecordConstruction(c, "C06.R8") }},
			{Name: "C06.R9", Run: func(c *Ctx) { ruleWriterWritesWhatItIsHanded(c, "C06.R9") }},
		},
	})
	register(&Property{
		ID: "C07",
		Explanation: "The equivalence of buffered file reading with in-memory reading over all sizes and seek/read histories is a property of the window arithmetic in BufferedFile.Seek/Read and is NOT decided. Decided: (R1) no read in package files turns end of input into a panic (io.EOF excluded, or at least one byte requested and available); (R2) each Reader constructor sets size to the length of what its contents deliver; (R3) Reader.Read is called only after a Seek on the same reader (axiom A5) and BufferedFile's methods never use the OS file cursor, only positioned ReadAt; (R4) every search gets a reader opened for it in the same loop iteration (no reader, with its buffered window and size, is kept across commands)." +
			" Round 4: (R9) every Read([]byte) implementation in package files delivers len(p) bytes when it returns no error." +
			" Round 5: (R10) Reader.Read/ReadAt return nothing or exactly the bytes asked for." +
			" Round 6: (R11) no byte is converted to a string as a code point in files/engine; (R12) no address of a per-loop variable is kept." +
			" Round 9: (R13) commands and files are independent of each other in both entry points (shared with C13): Run and RunFiles give every command the text as it is.",
		Assumptions: commonAssumptions,
		Rules: []RuleFn{
			{Name: "C07.R1", Run: func(c *Ctx) { ruleEOFNotAnError(c, "C07.R1") }},
			{Name: "C07.R2", Run: func(c *Ctx) { ruleSizeAgreement(c, "C07.R2") }},
			{Name: "C07.R3", Run: func(c *Ctx) { ruleOneAccessPath(c, "C07.R3") }},
			{Name: "C07.R4", Run: func(c *Ctx) { ruleReaderPerSearch(c, "C07.R4") }},
			{Name: "C07.R5", Run: func(c *Ctx) { ruleEveryFileIsSearched(c, "C07.R5") }},
			{Name: "C07.R6", Run: func(c *Ctx) { ruleReaderOffsetsAreFileOffsets(c, "C07.R6") }},
			{Name: "C07.R7", Run: func(c *Ctx) { ruleNoSharedBuffers(c, "C07.R7") }},
			{Name: "C07.R8", Run: func(c *Ctx) { ruleReadOffsetsNonNegative(c, "C07.R8") }},
			{Name: "C07.R9", Run: func(c *Ctx) { ruleFullReads(c, "C07.R9") }},
			{Name: "C07.R10", Run: func(c *Ctx) { ruleReaderAllOrNothing(c, "C07.R10") }},
			{Name: "C07.R11", Run: func(c *Ctx) { ruleNoByteToStringConversion(c, "C07.R11", []string{"files", "engine"}) }},
			{Name: "C07.R12", Run: func(c *Ctx) {
				ruleLoopVarAddressNotKept(c, "C07.R12", []string{"ast", "bytecode", "engine", "libvore", "files"})
			}},
			{Name: "C07.R13", Run: func(c *Ctx) { ruleCommandsIndependent(c, "C07.R13") }},
		},
	})
	register(&Property{
		ID: "C09",
		Explanation: "Decides, for everything reachable from Run/RunFiles, an inventory of panic-capable constructs each discharged by a named rule: (R1) explicit panics - fall-out of complete type switches / exhaustive enum switches, the evaluator's SHOULDN'T GET HERE panics by R2, or a frozen trusted table (VM invariants, operating-system failures); (R2) every operand-type cell the checker accepts has a non-panicking evaluator leaf; (R3) the flow-insensitive checker binds variable types monotonically; (R4) integer division has a tested divisor; (R5) instruction fetch is dominated by a program-counter bound test; (R6) reads at end of input; (R7) type assertions; (R8) results of Peek/Pop/Index are tested before dereference; (R9) readers are closed by the function that opened them and do not outlive their iteration; (R10) the VM-invariant panics of the trusted table rest on checkpoints being isolated snapshots: Copy gives every stack and map of a saved state its own storage (same rule as C02.R1); (R11) every Optional.GetValue is dominated by HasValue() on the same optional; (R12) the scan discipline on which the trusted `byte at the scan offset exists` panic rests. " +
			"Does NOT decide index safety that depends on VM invariants (branch lists non-empty, capture offsets inside the match, jump targets in range) nor process loops that never end." +
			" Round 4: (R15) variable indexes into fixed-size tables are bounded by the table length. (R16) the token kinds the list parser admits, the classes parse_character_class makes of them and GetMaxSize agree: no admitted class has a negative size." +
			" Round 5: (R17) no allocation is sized by a number written in the program." +
			" Round 6: (R18) the handlers of steering instructions cannot fail; (R19) a listed directory entry is used as a file only behind an IsDir test; (R20) every replace mode has a writer (CONFIRM: known finding); (R21) no method call on a result that may be a nil interface without a nil test." +
			" Round 8: (R22) relocation builds new instructions and leaves its receiver alone; (R23) the window of a match is applied where the scan counts matches. (R24) what is allocated because more is needed than the capacity holds is sized by what is needed." +
			" Round 9: (R25) the names the semantic check types are bound with that type by the engine in every environment (shared with C12). (R26) a read in front of the current position stands behind a test of the position or a CONSUME. (R27) inside the loop over the commands RunFiles does not both rename files and look the names of its list up again (known finding: with -filenames the second command panics on a file the first renamed).",
		Assumptions: commonAssumptions,
		Rules: []RuleFn{
			{Name: "C09.R1", Run: func(c *Ctx) {
				evalDischarge := func() (bool, string) {
					t := c.extractCheckerTables()
					if t.err != "" {
						return false, "UNDECIDED: cannot extract the checker table: " + t.err
					}
					for _, k := range sortedKeys(t.binary) {
						if t.binary[k] == "PTERROR" {
							continue
						}
						p := strings.Split(k, "|")
						if p[0] == "PTERROR" || p[2] == "PTERROR" {
							continue
						}
						cell := c.evalBinaryCell(p[1], p[0], p[2])
						if cell.Err != "" {
							return false, "UNDECIDED: the evaluator's cell for the accepted combination " + k + " could not be extracted: " + cell.Err
						}
						if cell.Panic {
							return false, "reachable for the accepted combination " + k
						}
					}
					return true, "unreachable for every operand-type combination the checker accepts (C09.R2), provided variables keep their checked type (C09.R3)"
				}
				// the evaluator's dispatch and every helper that is reachable only through it
				special := map[string]func() (bool, string){}
				if ebe := c.Fn("engine", "executeBinaryExpr"); ebe != nil {
					special[fnName(ebe)] = evalDischarge
					for f := range c.Reachable(ebe) {
						if c.isRepoFn(f) && f.Pkg == ebe.Pkg && f != ebe && f.Name() != "executeExpression" && c.onlyThrough(c.runRoots(), ebe, f) {
							special[fnName(f)] = evalDischarge
						}
					}
				}
				rulePanicInventory(c, "C09.R1", c.runRoots(), []string{"engine", "files", "ds"}, map[string]string{
					"msg:\"oh crap :(\"":             "loop stack non-empty: follows from well-bracketed StartLoop/StopLoop bytecode (value-level VM invariant)",
					"msg:\"Loop stack is empty :(\"": "loop stack non-empty (VM invariant)",
					"msg:\"UHOH BAD INSTRUCTIONS I TRIED RESOLVING A VARIABLE THAT I WASN'T EXPECTING\"": "variable records are pushed and popped by bracketed StartVarDec/EndVarDec instructions (VM invariant)",
					"msg:\"BAD CALL STACK :(\"":                               "call stack non-empty inside a subroutine (VM invariant)",
					"msg:\"WOW THAT IS NOT GOOD :(\"":                         "the byte at the scan offset exists because the scan loop reads exactly one byte at an offset below reader.Size() and leaves when the offset reaches it (scan discipline, C09.R12)",
					"msg:\"Attempting to read value from empty optional :(\"": "every call of GetValue is dominated by HasValue() on the same optional (C09.R11)",
				}, 12, special)
			}},
			{Name: "C09.R2", Run: func(c *Ctx) { ruleCheckerSubsetEvaluator(c, "C09.R2", nil) }},
			{Name: "C09.R3", Run: func(c *Ctx) { ruleMonotoneTypes(c, "C09.R3") }},
			{Name: "C09.R4", Run: func(c *Ctx) { ruleDivision(c, "C09.R4") }},
			{Name: "C09.R5", Run: func(c *Ctx) { ruleInstructionFetch(c, "C09.R5") }},
			{Name: "C09.R6", Run: func(c *Ctx) { ruleEOFNotAnError(c, "C09.R6") }},
			{Name: "C09.R7", Run: func(c *Ctx) { ruleTypeAssertions(c, "C09.R7", []string{"engine", "files"}, 0) }},
			{Name: "C09.R8", Run: func(c *Ctx) {
				ruleStackAPI(c, "C09.R8", map[string]string{
					"(*engine.SearchEngineState).ENDVAR": "variable records are pushed and popped by bracketed StartVarDec/EndVarDec instructions (VM invariant)",
					"engine.matchEndSubroutine":          "call stack non-empty inside a subroutine (VM invariant)",
					"(*ast.Lexer).get_position":          "the position stack is created with one element and unread never pops the last one",
					"(*ast.Lexer).read":                  "the position stack is never empty (see get_position)",
					"(*ast.Lexer).getNextToken":          "the position stack is never empty (see get_position)",
					"(*ast.Lexer).unread":                "guarded by `amount >= s.position.Size()`",
				})
			}},
			{Name: "C09.R9", Run: func(c *Ctx) { ruleReaderLifetime(c, "C09.R9") }},
			{Name: "C09.R10", Run: func(c *Ctx) { ruleSnapshotIsolation(c, "C09.R10") }},
			{Name: "C09.R11", Run: func(c *Ctx) { ruleOptionalGuard(c, "C09.R11") }},
			{Name: "C09.R12", Run: func(c *Ctx) { ruleScanDiscipline(c, "C09.R12") }},
			{Name: "C09.R13", Run: func(c *Ctx) { ruleEmptyReadsNotIndexed(c, "C09.R13") }},
			{Name: "C09.R14", Run: func(c *Ctx) { ruleReadOffsetsNonNegative(c, "C09.R14") }},
			{Name: "C09.R15", Run: func(c *Ctx) { ruleArrayIndexBounded(c, "C09.R15", []string{"engine", "files", "ds", "algo"}) }},
			{Name: "C09.R16", Run: func(c *Ctx) { ruleListedClassesHaveSize(c, "C09.R16") }},
			{Name: "C09.R17", Run: func(c *Ctx) { ruleNoAllocationFromProgramNumbers(c, "C09.R17", []string{"engine", "ds", "files"}) }},
			{Name: "C09.R18", Run: func(c *Ctx) { ruleSteeringInstructionsCannotFail(c, "C09.R18") }},
			{Name: "C09.R19", Run: func(c *Ctx) { ruleListedEntriesAreFiles(c, "C09.R19") }},
			{Name: "C09.R20", Run: func(c *Ctx) { ruleEveryModeHasWriter(c, "C09.R20") }},
			{Name: "C09.R21", Run: func(c *Ctx) { ruleNoMethodOnNilResult(c, "C09.R21") }},
			{Name: "C09.R22", Run: func(c *Ctx) { ruleAdjustPure(c, "C09.R22") }},
			{Name: "C09.R23", Run: func(c *Ctx) { ruleWindow(c, "C09.R23") }},
			{Name: "C09.R24", Run: func(c *Ctx) { ruleGrowthCoversNeed(c, "C09.R24") }},
			{Name: "C09.R25", Run: func(c *Ctx) { ruleCheckerAlwaysRun(c, "C09.R25") }},
			{Name: "C09.R26", Run: func(c *Ctx) { ruleLookBehindGuarded(c, "C09.R26") }},
			{Name: "C09.R27", Run: func(c *Ctx) { ruleNamesSurviveTheCommandLoop(c, "C09.R27") }},
		},
	})
	register(&Property{
		ID: "C20",
		Explanation: "Correctness of the star matcher (pathMatches, SplitKeep, Window) is a string-algorithm property and is NOT decided; its first-occurrence search after a star is invisible to a sound structural rule. Decided (`none extra ... directories are never listed`): (R1) every path that GetFileList itself adds to its result is control-dependent on `not a directory` and on pathMatches against the pattern segment, and every recursive call is made on the shrunk pattern, so recursion depth is bounded by the number of segments; (R2) no path or file name is cut with a cutset of two or more different characters that includes a file-name character (strings.TrimLeft(p, \"./\") eats the dot of dot-names); (R3) a conjunction of HasPrefix and HasSuffix on one name comes with a comparison of the lengths (the affixes may overlap otherwise)." +
			" Round 4: (R4) a parsed Path is immutable; (R5) no byte of a pattern is converted to a string as a code point." +
			" Round 5: (R6) the listing reads no package-level variable that the program writes." +
			" Round 8: (R7) no address of a per-iteration variable is kept anywhere between source and results.",
		Assumptions: commonAssumptions,
		Rules: []RuleFn{
			{Name: "C20.R1", Run: func(c *Ctx) { ruleFileListGuards(c, "C20.R1") }},
			{Name: "C20.R2", Run: func(c *Ctx) { ruleCutsetNotPrefix(c, "C20.R2", []string{"files", "engine", "main"}) }},
			{Name: "C20.R3", Run: func(c *Ctx) { ruleAffixOverlap(c, "C20.R3", []string{"files", "algo"}) }},
			{Name: "C20.R4", Run: func(c *Ctx) { rulePathImmutable(c, "C20.R4") }},
			{Name: "C20.R5", Run: func(c *Ctx) { ruleNoByteToStringConversion(c, "C20.R5", []string{"files", "algo"}) }},
			{Name: "C20.R6", Run: func(c *Ctx) { ruleListingReadsNoRunTimeState(c, "C20.R6") }},
			{Name: "C20.R7", Run: func(c *Ctx) {
				ruleLoopVarAddressNotKept(c, "C20.R7", []string{"ast", "bytecode", "engine", "libvore", "files"})
			}},
		},
	})
	register(&Property{
		ID: "C10",
		Explanation: "Termination itself is NOT decided. Decided are the mechanisms that make it true: (R1) in matchStartLoop the zero-width check dominates every start of a further iteration, and on a zero-width iteration the only effect is BACKTRACK and return; the recorded start is only ever len(currentMatch); (R2) matchEndNotIn advances only when the offset changed across CONSUME; (R3) every instruction handler and every MATCH* primitive moves the state (NEXT/JUMP/RETURN/BACKTRACK/FAIL) on every returning path (must-analysis over the CFG, greatest fixpoint over the primitives); (R4) the outer scan advances (scan discipline); (R5) loop identity compares loop id and call depth; (R6) every loop inside an instruction handler that calls CONSUME has an exit that tests the offset against reader.Size() (directly or in every predicate the exit can call); R1 also requires every increment of the iteration counter to re-record the iteration start on all paths. " +
			"Does NOT decide weakened-but-present guards, nor recursion that consumes nothing (excluded by the property)." +
			" Round 4: (R9) nothing is consumed at the end of the input (same rule as C01.R8); (R10) with the body's status fixed to the one set by `return`/`break` the process-loop executor has no feasible cycle; R1 accepts a skipped zero-width check only on an edge where `iteration < MinLoops`." +
			" Round 5: (R11) replacer handlers advance the program counter on every path; (R12) the loop-stack protocol (same rule as C01.R5)." +
			" Round 6: (R13) the handlers of steering instructions cannot fail; (R14) relocation is applied to stored bodies only; (R15) a loop in a VM primitive that reads the input cannot be left un-leavable once the read answers \"\".",
		Assumptions: commonAssumptions,
		Rules: []RuleFn{
			{Name: "C10.R1", Run: func(c *Ctx) { ruleZeroWidthGuard(c, "C10.R1") }},
			{Name: "C10.R2", Run: func(c *Ctx) { ruleNotInProgress(c, "C10.R2") }},
			{Name: "C10.R3", Run: func(c *Ctx) { ruleHandlersMove(c, "C10.R3") }},
			{Name: "C10.R4", Run: func(c *Ctx) { ruleScanDiscipline(c, "C10.R4") }},
			{Name: "C10.R5", Run: func(c *Ctx) { ruleLoopIdentity(c, "C10.R5") }},
			{Name: "C10.R6", Run: func(c *Ctx) { ruleConsumingLoopsStopAtEOF(c, "C10.R6") }},
			{Name: "C10.R7", Run: func(c *Ctx) { ruleSnapshotIsolation(c, "C10.R7") }},
			{Name: "C10.R8", Run: func(c *Ctx) { ruleJumpsGoForward(c, "C10.R8") }},
			{Name: "C10.R9", Run: func(c *Ctx) { ruleNothingConsumedAtEnd(c, "C10.R9") }},
			{Name: "C10.R10", Run: func(c *Ctx) { ruleProcessLoopEnds(c, "C10.R10") }},
			{Name: "C10.R11", Run: func(c *Ctx) { ruleReplacerHandlersMove(c, "C10.R11") }},
			{Name: "C10.R12", Run: func(c *Ctx) { ruleLoopProtocol(c, "C10.R12") }},
			{Name: "C10.R13", Run: func(c *Ctx) { ruleSteeringInstructionsCannotFail(c, "C10.R13") }},
			{Name: "C10.R14", Run: func(c *Ctx) { ruleRelocationScope(c, "C10.R14") }},
			{Name: "C10.R15", Run: func(c *Ctx) { rulePrimitiveLoopsEndWithInput(c, "C10.R15") }},
		},
	})
	register(&Property{
		ID: "C11",
		Explanation: "Decides that the evaluator implements the documented operator/coercion table: (R1) for every documented cell the leaf of executeBinaryExpr, extracted by partial evaluation over the tag domain (operator x operand types), reads both operands through the accessor of the left operand's type, applies the documented Go operator and builds the documented result type; the oracle is the Type Coersion table of docs/language/LanguageDetails.md, parsed on every run; " +
			"(R2) the nine coercion accessors compute the documented conversions; (R3) the Pratt parser's binding powers give the documented precedence levels and left associativity; (R4) not/head/tail. " +
			"Does NOT decide strconv and Go operator semantics (trusted), nor integer overflow behaviour." +
			" Round 4: (R6) `return` ends the process code (same rule as C05.R11)." +
			" Round 6: (R7) a `loop` ends only by break or return (shared with C05); (R8) a failed number conversion in the parser is a parse error on every path." +
			" Round 8: (R9) where a variable is looked up, whatever is handed on and depends on the looked-up value is that value itself, never a value built out of it.",
		Assumptions: append([]string{"the documentation table is the specification; a documented row with a coerced-number left operand denotes string-on-the-left with a number on the right"}, commonAssumptions...),
		Rules: []RuleFn{
			{Name: "C11.R1", Run: func(c *Ctx) { ruleEvaluatorTable(c, "C11.R1") }},
			{Name: "C11.R2", Run: func(c *Ctx) { ruleCoercions(c, "C11.R2") }},
			{Name: "C11.R3", Run: func(c *Ctx) { rulePrecedence(c, "C11.R3") }},
			{Name: "C11.R4", Run: func(c *Ctx) { ruleUnaryTable(c, "C11.R4") }},
			{Name: "C11.R5", Run: func(c *Ctx) { ruleNoExpressionRewrites(c, "C11.R5") }},
			{Name: "C11.R6", Run: func(c *Ctx) { ruleReturnStopsStatements(c, "C11.R6") }},
			{Name: "C11.R7", Run: func(c *Ctx) { ruleProcessLoopEndsOnlyOnRequest(c, "C11.R7") }},
			{Name: "C11.R8", Run: func(c *Ctx) { ruleNumberConversionErrorsPropagate(c, "C11.R8") }},
			{Name: "C11.R9", Run: func(c *Ctx) { ruleVariableReadIsStoredValue(c, "C11.R9") }},
		},
	})
	register(&Property{
		ID: "C12",
		Explanation: "Decides that the static checker accepts exactly the documented operand-type combinations: (R1) the full decision table of checkBinaryExpr/checkUnaryExpr over {string,number,bool,error}^2 x 13 operators (208+12 cells, extracted by partial evaluation) equals the documented table in both directions, including error propagation from either operand; " +
			"(R2) every accepted cell has a non-panicking evaluator leaf of the promised result type; (R3) statement rules: if needs bool, return by context, break/continue only in loop, loop restores the inLoop flag; (R4) both generators run the checker on every statement before succeeding; (R5) statement/expression dispatch completeness; (R6) error discipline of the checker: the verdict of a check call is compared with PTERROR or returned before it is handed to the next check call; (R7) every body is checked against a type environment created for that body. " +
			"Does NOT decide flow-sensitive typing (excluded by the property)." +
			" Round 8: (R9) no function of package ast returns an operand taken out of an expression node in place of a node." +
			" Round 9: (R10) no unguarded type assertion on a process value in the evaluator (shared with C09: accepted code must not panic).",
		Assumptions: append([]string{"the documentation table is the specification"}, commonAssumptions...),
		Rules: []RuleFn{
			{Name: "C12.R1", Run: func(c *Ctx) { t := ruleCheckerTable(c, "C12.R1"); ruleCheckerSubsetEvaluator(c, "C12.R2", t) }},
			{Name: "C12.R3", Run: func(c *Ctx) { ruleStatementRules(c, "C12.R3") }},
			{Name: "C12.R4", Run: func(c *Ctx) { ruleCheckerAlwaysRun(c, "C12.R4") }},
			{Name: "C12.R6", Run: func(c *Ctx) { ruleCheckErrorsPropagate(c, "C12.R6") }},
			{Name: "C12.R7", Run: func(c *Ctx) { ruleCheckerEnvFresh(c, "C12.R7") }},
			{Name: "C12.R8", Run: func(c *Ctx) { ruleBuiltinsWin(c, "C12.R8") }},
			{Name: "C12.R9", Run: func(c *Ctx) { ruleParserKeepsOperators(c, "C12.R9") }},
			{Name: "C12.R10", Run: func(c *Ctx) { ruleTypeAssertions(c, "C12.R10", []string{"engine"}, 0) }},
			{Name: "C12.R5", Run: func(c *Ctx) {
				ruleTypeSwitchComplete(c, "C12.R5", []string{"bytecode", "engine"}, func(n *types.Named) bool {
					return n.Obj().Name() == "AstProcessStatement" || n.Obj().Name() == "AstProcessExpression"
				}, 4)
			}},
		},
	})
	register(&Property{
		ID: "C14",
		Explanation: "Equivalence with a regex engine is NOT decided (value-level; it is C01 plus this). Decided: the regex-specific translation tables and the numbering order - (R1) the quantifier table of parse_regexp_quantifier, extracted from the AstLoop literals and the character tests that control them (* + ? {m} {m,} {m,n}), and that the lazy marker applies to every quantifier; (R2) the atom table (^ $ . \\d \\D \\s \\S); (R3) a capturing group reads its number before its body is parsed (numbering by opening parenthesis)." +
			" Round 4: (R6) the loop-stack protocol (same rule as C01.R5); (R7) no byte of a regexp literal is converted to a string as a code point; (R8) the scan discipline (same rule as C01.R3)." +
			" Round 5: (R9) group numbering restarts per literal and every capturing group takes a number; (R10) the empty text matches with zero width; (R11) renumbering passes cover every program-counter field." +
			" Round 6: (R12) checkpoints are isolated snapshots; (R13) every attempt starts from a fresh state; (R14) alternatives are tried in written order; (R15) the compiled program is read-only at run time; (R16) the copies of an unrolled loop body may each declare the body's captures; (R17) an unbound back-reference fails." +
			" Round 8: (R18) a line ends in front of the last newline of the input (shared with C01). Round 9: (R19) the function that builds a StartLoop reads the loop node it was handed (a node that a call returned in its place is UNDECIDED: its equivalence is an arithmetic claim).",
		Assumptions: commonAssumptions,
		Rules: []RuleFn{
			{Name: "C14.R1", Run: func(c *Ctx) { ruleRegexQuantifiers(c, "C14.R1") }},
			{Name: "C14.R2", Run: func(c *Ctx) { ruleRegexAtoms(c, "C14.R2") }},
			{Name: "C14.R3", Run: func(c *Ctx) { ruleRegexGroupOrder(c, "C14.R3") }},
			{Name: "C14.R4", Run: func(c *Ctx) { ruleQuantifierWrapsAtom(c, "C14.R4") }},
			{Name: "C14.R5", Run: func(c *Ctx) { ruleQuantifierCharsAgree(c, "C14.R5") }},
			{Name: "C14.R6", Run: func(c *Ctx) { ruleLoopProtocol(c, "C14.R6") }},
			{Name: "C14.R7", Run: func(c *Ctx) { ruleNoByteToStringConversion(c, "C14.R7", []string{"ast", "bytecode", "engine"}) }},
			{Name: "C14.R8", Run: func(c *Ctx) { ruleScanDiscipline(c, "C14.R8") }},
			{Name: "C14.R9", Run: func(c *Ctx) { ruleGroupNumbering(c, "C14.R9", true) }},
			{Name: "C14.R10", Run: func(c *Ctx) { ruleEmptyTextMatches(c, "C14.R10") }},
			{Name: "C14.R11", Run: func(c *Ctx) { ruleRenumberingComplete(c, "C14.R11") }},
			{Name: "C14.R12", Run: func(c *Ctx) { ruleSnapshotIsolation(c, "C14.R12") }},
			{Name: "C14.R13", Run: func(c *Ctx) { ruleAttemptFresh(c, "C14.R13") }},
			{Name: "C14.R14", Run: func(c *Ctx) { ruleAlternativeOrder(c, "C14.R14") }},
			{Name: "C14.R15", Run: func(c *Ctx) { ruleProgramReadOnly(c, "C14.R15") }},
			{Name: "C14.R16", Run: func(c *Ctx) { ruleUnrolledBodiesMayDeclare(c, "C14.R16") }},
			{Name: "C14.R17", Run: func(c *Ctx) { ruleUnboundReferenceFails(c, "C14.R17") }},
			{Name: "C14.R18", Run: func(c *Ctx) { ruleLineEndsBeforeLastNewline(c, "C14.R18") }},
			{Name: "C14.R19", Run: func(c *Ctx) { ruleLoopBoundsAsWritten(c, "C14.R19") }},
		},
	})
	register(&Property{
		ID: "C15",
		Explanation: "Decides the skip discipline that makes whitespace, comments and keyword case irrelevant: (R1) every token-kind test of the hand-written parser (comparison of tokens[i].TokenType with a kind other than WS/COMMENT, or a kind handed to a predicate helper) looks at an index that is the result of consumeIgnoreableTokens, is the function's own parameter (then every call site must pass a skipped index), or - for indexes returned by callees - whose callee summary says `skipped` (typestate over SSA with function summaries, greatest fixpoint); (R2) the expression-token filter drops exactly the kinds the skipper skips; (R3) keywords are matched on strings.ToLower of the whole lexeme and are spelled in lower case; (R4) if the lexer keeps a memory of tokens it produced and reads it back, every store into it is guarded by tests that exclude WS and COMMENT. " +
			"A raw decision means: inserting a blank or a comment at that gap changes the branch taken. Does NOT decide the lexer's comment state machine nor equality of the resulting syntax trees." +
			" Round 4: (R6) with the lexer state fixed to a comment state only arms reached because of the state (or end-of-input arms) stay reachable." +
			" Round 5: (R7) a newline ends a line comment in each of its states; (R8) the first character of the block comment's end marker restarts the recognition from every recognition state (state and character fixed)." +
			" Round 6: (R9) nothing Compile writes at package level survives into the next compilation unseen; (R10) the lexer's look-ahead is a Peek of a small constant and never depends on what is buffered; (R11) the command parser answers the EOF token without an error." +
			" Round 8: (R12) in a string state, on the string's own quote, the lexer leaves the literal without looking at what follows. (R13) the token list is not written after the lexer (shared with C08)." +
			" Round 9: (R14) read() hands out exactly the rune of one ReadRune (shared with C16); (R15) the kind of a finished token is never overwritten. (R16) a function that stands in for unicode.IsSpace in the scanning loop answers as the library does for U+0000..U+3000.",
		Assumptions: commonAssumptions,
		Rules: []RuleFn{
			{Name: "C15.R1", Run: func(c *Ctx) {
				exc := "frozen exception: the index returned by parse_process_statements is the `end`/`else`/EOF token on which the statement list stopped; parse_process_statement returned its own (skipped) index parameter unchanged on that path. Proving it needs a path-sensitive summary."
				ruleSkipDiscipline(c, "C15.R1", map[string]string{
					"*: raw index returned by ast.parse_process_statements": exc,
				})
			}},
			{Name: "C15.R2", Run: func(c *Ctx) { ruleIgnorableSiblings(c, "C15.R2") }},
			{Name: "C15.R3", Run: func(c *Ctx) { ruleKeywordCase(c, "C15.R3") }},
			{Name: "C15.R4", Run: func(c *Ctx) { ruleLexerTokenMemory(c, "C15.R4") }},
			{Name: "C15.R5", Run: func(c *Ctx) { ruleLexemeComparedRaw(c, "C15.R5") }},
			{Name: "C15.R6", Run: func(c *Ctx) { ruleCommentStatesOwnTheirCharacters(c, "C15.R6") }},
			{Name: "C15.R7", Run: func(c *Ctx) { ruleNewlineEndsLineComment(c, "C15.R7") }},
			{Name: "C15.R8", Run: func(c *Ctx) { ruleBlockCommentMarkerRestarts(c, "C15.R8") }},
			{Name: "C15.R9", Run: func(c *Ctx) { ruleGlobalsReinit(c, "C15.R9") }},
			{Name: "C15.R10", Run: func(c *Ctx) { ruleLexerLookaheadFixed(c, "C15.R10") }},
			{Name: "C15.R11", Run: func(c *Ctx) { ruleEOFIsNotACommandError(c, "C15.R11") }},
			{Name: "C15.R12", Run: func(c *Ctx) { ruleQuoteEndsString(c, "C15.R12") }},
			{Name: "C15.R13", Run: func(c *Ctx) { ruleTokenListReadOnly(c, "C15.R13") }},
			{Name: "C15.R14", Run: func(c *Ctx) { ruleReadVerbatim(c, "C15.R14") }},
			{Name: "C15.R15", Run: func(c *Ctx) { ruleTokenKindDecidedOnce(c, "C15.R15") }},
			{Name: "C15.R16", Run: func(c *Ctx) { ruleBlankTestIsIsSpace(c, "C15.R16") }},
		},
	})
	register(&Property{
		ID: "C16",
		Explanation: "Decides the structural part of string-literal decoding: (R1) the lexer's push-back never exceeds what bufio.Reader can undo (capacity 1 while unread() relies on UnreadRune); (R2) the escape table of getEscapedRune, folded over every ASCII rune, is the documented one (n t r a b f v, identity otherwise); (R3) the double-quote and single-quote branches of the lexer are identical up to their state constants and quote character; (R4) IsHex accepts exactly the hex digits and HexToAscii parses base 16; (R5) read() hands out exactly the rune of one ReadRune call; (R6) an escape state lasts for one decision: every path out of the arm guarded by it continues in the string state it was entered from. " +
			"Does NOT decide the state machine as a whole (that every byte string round-trips), only these necessary conditions." +
			" Round 4: (R7) with the lexer state fixed to a string state only arms reached because of the state (or end-of-input arms) stay reachable; (R8) the builders of a literal's node read no package-level variable that Compile writes." +
			" Round 6: (R9) as C15.R9; (R10) as C15.R10; (R11) a MatchLiteral carries one AST literal unchanged." +
			" Round 8: (R12) nothing in package ast trims or replaces inside the text of a token; (R13) as C15.R12." +
			" Round 9: (R14) a store into Token.TokenType goes to a token made in the same function (or by the caller that hands it in), never to a finished one.",
		Assumptions: append([]string{"bufio.Reader.UnreadRune supports a single level of push-back (documented)"}, commonAssumptions...),
		Rules: []RuleFn{
			{Name: "C16.R1", Run: func(c *Ctx) { ruleUnreadDepth(c, "C16.R1") }},
			{Name: "C16.R2", Run: func(c *Ctx) { ruleEscapeTable(c, "C16.R2") }},
			{Name: "C16.R3", Run: func(c *Ctx) { ruleQuoteSiblings(c, "C16.R3") }},
			{Name: "C16.R5", Run: func(c *Ctx) { ruleReadVerbatim(c, "C16.R5") }},
			{Name: "C16.R6", Run: func(c *Ctx) { ruleEscapeStateOneChar(c, "C16.R6") }},
			{Name: "C16.R7", Run: func(c *Ctx) { ruleStringStatesOwnTheirCharacters(c, "C16.R7") }},
			{Name: "C16.R8", Run: func(c *Ctx) { ruleLiteralIndependentOfGlobals(c, "C16.R8") }},
			{Name: "C16.R9", Run: func(c *Ctx) { ruleGlobalsReinit(c, "C16.R9") }},
			{Name: "C16.R10", Run: func(c *Ctx) { ruleLexerLookaheadFixed(c, "C16.R10") }},
			{Name: "C16.R11", Run: func(c *Ctx) { ruleLiteralInstructionIsTheLiteral(c, "C16.R11") }},
			{Name: "C16.R12", Run: func(c *Ctx) { ruleTokenTextNotCut(c, "C16.R12") }},
			{Name: "C16.R13", Run: func(c *Ctx) { ruleQuoteEndsString(c, "C16.R13") }},
			{Name: "C16.R14", Run: func(c *Ctx) { ruleTokenKindDecidedOnce(c, "C16.R14") }},
		},
	})
	register(&Property{
		ID: "C17",
		Explanation: "Decides structural conditions of the JSON renderings: (R1) no type assertion in the rendering code is impossible or unguarded (a value whose every reaching definition has another dynamic type panics on every call); (R2) Match.MarshalJSON/Range.MarshalJSON emit exactly the documented keys, each from the like-named field, `replacement` control-dependent on Replacement.HasValue() only; (R3) every static type flowing into json.Marshal is JSON-safe (type closure through MakeInterface producers) and every MarshalJSON returns bytes produced by encoding/json; (R4) Json and FormattedJson marshal the receiver itself; (R5) what they return is the encoder's bytes converted to a string (through helpers, possibly trimmed) and nothing else - any other function applied to encoded JSON is reported. The JSON object may be a map or a struct with json tags. " +
			"Does NOT decide encoding/json itself nor round-trip equality of values." +
			" Round 6: (R6) nothing reachable from the renderings sorts a list of matches. Round 9: (R7) nothing reachable from the renderings deletes from, or stores into, a map it did not make (a value receiver shares its maps with the match).",
		Assumptions: append([]string{"encoding/json produces valid JSON for JSON-safe Go values and escapes arbitrary text"}, commonAssumptions...),
		Rules: []RuleFn{
			{Name: "C17.R1", Run: func(c *Ctx) { ruleTypeAssertions(c, "C17.R1", []string{"engine", "ds"}, 0) }},
			{Name: "C17.R2", Run: func(c *Ctx) { ruleJSONShape(c, "C17.R2") }},
			{Name: "C17.R3", Run: func(c *Ctx) { ruleJSONMarshalSafe(c, "C17.R3") }},
			{Name: "C17.R4", Run: func(c *Ctx) { ruleJSONRenderings(c, "C17.R4") }},
			{Name: "C17.R5", Run: func(c *Ctx) { ruleJSONTextUntouched(c, "C17.R5") }},
			{Name: "C17.R6", Run: func(c *Ctx) { ruleRenderingKeepsOrder(c, "C17.R6") }},
			{Name: "C17.R7", Run: func(c *Ctx) { ruleRenderingReadOnly(c, "C17.R7") }},
		},
	})
	register(&Property{
		ID: "C18",
		Explanation: "Decides structural conditions of the command-line tool in package main: (R1) every os.OpenFile used for the JSON output files has a write access mode and permission bits, and every document written to a file is preceded by O_TRUNC or a dominating Truncate of that file (also inside the helper that returns the file); (R2) on every path of main.main that can continue to the statement printing the JSON document, no other call may write to standard output (call graph closure over fmt.Print*/os.Stdout; exempt: calls control-dependent on -debug, the user-requested debug statement, paths cut by os.Exit/log.Fatal/return or by contradictory flag conditions); (R3) every failure exit has a non-zero status and cannot execute after RunFiles; (R4) the -replace-mode table (partial evaluation of replaceMode) and the NEW default; (R5) the documented flags are registered with the documented kinds (anywhere in package main); (R6) no path is cut with a multi-character cutset. Flags may be variables or fields of an options struct. " +
			"Does NOT decide the process-level behaviour of the built binary (exit status, bytes on stdout)." +
			" Round 4: (R9) the searched file list never contains a directory (same rule as C20.R1)." +
			" Round 5: (R10) no computed text is used as a format string; (R11) no output file is opened before the program compiled." +
			" Round 8: (R12) Compile never returns (nil, nil). (R13) a growing buffer covers the request that made it grow (shared with C09)." +
			" Round 9: (R14) the splice copies gaps, replacements and the tail whatever the number of matches (shared with C06). (R15) every type assertion on a repository interface in libvore, main and engine asks for a type that is actually converted to it.",
		Assumptions: append([]string{"flag.PrintDefaults, log.Fatal and the builtin println write to standard error"}, commonAssumptions...),
		Rules: []RuleFn{
			{Name: "C18.R1", Run: func(c *Ctx) { ruleCLIOpenForWriting(c, "C18.R1") }},
			{Name: "C18.R2", Run: func(c *Ctx) { ruleCLIStdout(c, "C18.R2") }},
			{Name: "C18.R3", Run: func(c *Ctx) { ruleCLIExits(c, "C18.R3") }},
			{Name: "C18.R4", Run: func(c *Ctx) { ruleCLIModeTable(c, "C18.R4") }},
			{Name: "C18.R5", Run: func(c *Ctx) { ruleCLIFlags(c, "C18.R5") }},
			{Name: "C18.R6", Run: func(c *Ctx) { ruleCutsetNotPrefix(c, "C18.R6", []string{"main", "files", "engine"}) }},
			{Name: "C18.R7", Run: func(c *Ctx) { ruleJSONMarshalSafe(c, "C18.R7"); ruleJSONTextUntouched(c, "C18.R7b") }},
			{Name: "C18.R8", Run: func(c *Ctx) { ruleModeTable(c, "C18.R8") }},
			{Name: "C18.R9", Run: func(c *Ctx) { ruleFileListGuards(c, "C18.R9") }},
			{Name: "C18.R10", Run: func(c *Ctx) { ruleNoDataAsFormat(c, "C18.R10", []string{"main"}) }},
			{Name: "C18.R11", Run: func(c *Ctx) { ruleNoFileBeforeCompile(c, "C18.R11") }},
			{Name: "C18.R12", Run: func(c *Ctx) { ruleCompileNeverNilNil(c, "C18.R12") }},
			{Name: "C18.R13", Run: func(c *Ctx) { ruleGrowthCoversNeed(c, "C18.R13") }},
			{Name: "C18.R14", Run: func(c *Ctx) { ruleSpliceLoop(c, "C18.R14") }},
			{Name: "C18.R15", Run: func(c *Ctx) { ruleAssertionsCanSucceed(c, "C18.R15", []string{"libvore", "main", "engine"}) }},
		},
	})
	register(&Property{
		ID: "C19",
		Explanation: "Decides data-race freedom of concurrent Compile/Run calls for this code base by ownership: (R1) no package-level variable is " +
			"accessed without synchronisation by code reachable from Compile/CompileFile/(*Vore).Run/RunFiles; (R2/R3) run-time code never stores into the " +
			"shared compiled program (bytecode/ast objects, *Vore); (R4) no go statements, unsafe, cgo, and every library call goes to an allow-listed goroutine-safe package. " +
			"Under R1-R4 two calls share only read-only memory. Does NOT decide determinism of results beyond that (random loop ids are unobservable by design)." +
			" Round 4: (R5) every mutex Lock is released on every path out of its function; (R6) what Compile writes at package level is re-initialised before it is used (same rule as C13.R5)." +
			" Round 6: (R7) the parser lock is not held while anything is read from the source; (R8) nothing of the repository is called between a Lock and a non-deferred Unlock; (R9) no write into a slice handed in by a caller of the library." +
			" Round 9: (R10) snapshots, matches and live states share no mutable table (shared with C02: a pool of tables that hands one out twice).",
		Assumptions: append([]string{"standard-library packages on the allow-list are goroutine-safe as documented"}, commonAssumptions...),
		Rules: []RuleFn{
			{Name: "C19.R1", Run: func(c *Ctx) { ruleGlobals(c, "C19.R1", c.apiRoots(), "Compile/CompileFile/(*Vore).Run/RunFiles") }},
			{Name: "C19.R5", Run: func(c *Ctx) {
				ruleLocksReleased(c, "C19.R5", []string{"ast", "bytecode", "engine", "libvore", "files"})
			}},
			{Name: "C19.R6", Run: func(c *Ctx) { ruleGlobalsReinit(c, "C19.R6") }},
			{Name: "C19.R7", Run: func(c *Ctx) { ruleLockNotHeldAcrossReads(c, "C19.R7") }},
			{Name: "C19.R8", Run: func(c *Ctx) {
				ruleNoPanicUnderPlainLock(c, "C19.R8", []string{"ast", "bytecode", "engine", "libvore", "files"})
			}},
			{Name: "C19.R9", Run: func(c *Ctx) { ruleNoWriteIntoCallersSlice(c, "C19.R9") }},
			{Name: "C19.R10", Run: func(c *Ctx) { ruleSnapshotIsolation(c, "C19.R10") }},
			{Name: "C19.R2", Run: func(c *Ctx) { ruleProgramReadOnly(c, "C19.R2") }},
			{Name: "C19.R4", Run: func(c *Ctx) { ruleLibraryCalls(c, "C19.R4") }},
		},
	})
}
