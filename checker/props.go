package main

// Registry: which rules decide which property. Explanations are copied into the evidence on every run.

var commonAssumptions = []string{
	"go/packages + go/types + go/ssa (golang.org/x/tools v0.29.0, vendored) model Go faithfully",
	"the VTA call graph (seeded by CHA) over-approximates dynamic dispatch; no reflection/unsafe calls hide edges (checked by C19.R4)",
	"the nine packages of the baseline build are the program; libvorejs/src does not compile at the pinned commit and is not analysed",
}

func init() {
	register(&Property{
		ID: "C13",
		Explanation: "Decides structural necessary conditions of definition transparency and of command/run/compile independence: " +
			"(R1) no adjust method writes through a reference obtained from its receiver (relocation never mutates the stored pattern); " +
			"(R2) every instruction field that receives a program counter in the generator is shifted by adjust; " +
			"(R3) no code reachable from Run/RunFiles stores into memory owned by the compiled program (types of bytecode/ast, *Vore); " +
			"(R4) every command generator installs a fresh variable scope before generating search instructions; " +
			"(R5) package-level state written during Compile is re-initialised before use. " +
			"Does NOT decide that an inlined copy and a call behave alike in the VM, nor uniqueness of the random loop ids.",
		Assumptions: commonAssumptions,
		Rules: []RuleFn{
			{Name: "C13.R1", Run: func(c *Ctx) { ruleAdjustPure(c, "C13.R1") }},
			{Name: "C13.R2", Run: func(c *Ctx) { ruleRelocationComplete(c, "C13.R2") }},
			{Name: "C13.R3", Run: func(c *Ctx) { ruleProgramReadOnly(c, "C13.R3") }},
			{Name: "C13.R5", Run: func(c *Ctx) { ruleGlobalsReinit(c, "C13.R5") }},
		},
	})
	register(&Property{
		ID: "C19",
		Explanation: "Decides data-race freedom of concurrent Compile/Run calls for this code base by ownership: (R1) no package-level variable is " +
			"accessed without synchronisation by code reachable from Compile/CompileFile/(*Vore).Run/RunFiles; (R2/R3) run-time code never stores into the " +
			"shared compiled program (bytecode/ast objects, *Vore); (R4) no go statements, unsafe, cgo, and every library call goes to an allow-listed goroutine-safe package. " +
			"Under R1-R4 two calls share only read-only memory. Does NOT decide determinism of results beyond that (random loop ids are unobservable by design).",
		Assumptions: append([]string{"standard-library packages on the allow-list are goroutine-safe as documented"}, commonAssumptions...),
		Rules: []RuleFn{
			{Name: "C19.R1", Run: func(c *Ctx) { ruleGlobals(c, "C19.R1", c.apiRoots(), "Compile/CompileFile/(*Vore).Run/RunFiles") }},
			{Name: "C19.R2", Run: func(c *Ctx) { ruleProgramReadOnly(c, "C19.R2") }},
			{Name: "C19.R4", Run: func(c *Ctx) { ruleLibraryCalls(c, "C19.R4") }},
		},
	})
}
