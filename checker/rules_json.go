package main

// C17: JSON output. Also the generic type-assertion rule used by C09.R7.

import (
	"encoding/json"
	"fmt"
	"go/constant"
	"go/token"
	"go/types"
	"reflect"
	"sort"
	"strings"

	"golang.org/x/tools/go/ssa"
)

// ifaceSources follows an interface-typed value back to the concrete values converted into it.
// closed=false when some source is not a MakeInterface (parameter, call result, load...).
func ifaceSources(v ssa.Value) (srcs []types.Type, closed bool) {
	closed = true
	seen := map[ssa.Value]bool{}
	var walk func(v ssa.Value)
	walk = func(v ssa.Value) {
		if seen[v] {
			return
		}
		seen[v] = true
		switch x := v.(type) {
		case *ssa.MakeInterface:
			srcs = append(srcs, x.X.Type())
		case *ssa.ChangeInterface:
			walk(x.X)
		case *ssa.Phi:
			for _, e := range x.Edges {
				walk(e)
			}
		case *ssa.Const:
			if !x.IsNil() {
				closed = false
			}
		case *ssa.UnOp:
			// a local variable holding the interface: follow its stores
			if x.Op == token.MUL {
				if a, ok := x.X.(*ssa.Alloc); ok {
					n := 0
					for _, ref := range *a.Referrers() {
						if st, ok := ref.(*ssa.Store); ok && st.Addr == a {
							n++
							walk(st.Val)
						}
					}
					if n > 0 {
						return
					}
				}
			}
			closed = false
		default:
			closed = false
		}
	}
	walk(v)
	return
}

// guardedAssert: a non-comma-ok assertion dominated by the success edge of a comma-ok test of the same value and type.
func guardedAssert(ta *ssa.TypeAssert) bool {
	fn := ta.Parent()
	ok := false
	instrsOf(fn, func(in ssa.Instruction) {
		t2, is := in.(*ssa.TypeAssert)
		if !is || !t2.CommaOk || t2.X != ta.X || !types.Identical(t2.AssertedType, ta.AssertedType) {
			return
		}
		for _, ref := range *t2.Referrers() {
			ex, is := ref.(*ssa.Extract)
			if !is || ex.Index != 1 {
				continue
			}
			for _, r2 := range *ex.Referrers() {
				if iff, is := r2.(*ssa.If); is {
					succ := iff.Block().Succs[0]
					if succ == ta.Block() || succ.Dominates(ta.Block()) {
						ok = true
					}
				}
			}
		}
	})
	return ok
}

// ruleTypeAssertions implements C17.R1 / C09.R7 over the given packages.
func ruleTypeAssertions(c *Ctx, rule string, pkgs []string, floor int) {
	r := c.R
	n := 0
	for _, pkg := range pkgs {
		for _, fn := range c.SrcFuncs(pkg) {
			k := 0
			instrsOf(fn, func(in ssa.Instruction) {
				ta, ok := in.(*ssa.TypeAssert)
				if !ok || ta.CommaOk {
					return
				}
				n++
				k++
				ob := r.Ob(rule, fmt.Sprintf("%s: assertion #%d to %s", fnName(fn), k, types.TypeString(ta.AssertedType, shortQual)), c.pos(ta.Pos()))
				srcs, closed := ifaceSources(ta.X)
				match := 0
				var names []string
				for _, s := range srcs {
					names = append(names, types.TypeString(s, shortQual))
					if types.IsInterface(ta.AssertedType) {
						if types.Implements(s, ta.AssertedType.Underlying().(*types.Interface)) {
							match++
						}
					} else if types.Identical(s, ta.AssertedType) {
						match++
					}
				}
				switch {
				case closed && len(srcs) > 0 && match == len(srcs):
					ob.OKnt("every value reaching the assertion has dynamic type " + strings.Join(uniq(names), ", "))
				case closed && len(srcs) > 0 && match == 0:
					ob.Bad(fmt.Sprintf("the asserted value always has dynamic type %s, never %s: the assertion panics on every execution",
						strings.Join(uniq(names), ", "), types.TypeString(ta.AssertedType, shortQual)))
				case closed && len(srcs) > 0:
					ob.Bad(fmt.Sprintf("some values reaching the assertion have dynamic type %s, not %s", strings.Join(uniq(names), ", "), types.TypeString(ta.AssertedType, shortQual)))
				case guardedAssert(ta):
					ob.OKnt("dominated by a successful comma-ok test (type-switch case) of the same value and type")
				default:
					ob.Bad("unguarded type assertion on a value whose dynamic type is not determined here: it panics for any other type")
				}
			})
		}
	}
	r.Floor(rule, "non-comma-ok type assertions examined", n, floor)
	if n == 0 {
		r.Ob(rule, "no unguarded type assertion in "+strings.Join(pkgs, ", "), "").OK("the packages contain no non-comma-ok type assertion: nothing can panic here")
	}
}

// ---------------------------------------------------------------------------------------------
// C17.R2 object shape

type mapEntry struct {
	key   string
	src   string // description of the stored value
	in    ssa.Instruction
	conds []string
}

// describeValue renders the origin of a value in terms of the receiver: "recv.Field", "recv.Field.Method()".
func describeValue(v ssa.Value, recv *ssa.Parameter) string {
	switch x := v.(type) {
	case *ssa.MakeInterface:
		return describeValue(x.X, recv)
	case *ssa.ChangeType:
		return describeValue(x.X, recv)
	case *ssa.Field:
		return describeValue(x.X, recv) + "." + fieldName(x.X.Type(), x.Field)
	case *ssa.FieldAddr:
		return describeValue(x.X, recv) + "." + fieldName(x.X.Type(), x.Field)
	case *ssa.UnOp:
		if x.Op == token.MUL {
			return describeValue(x.X, recv)
		}
	case *ssa.Alloc:
		// a spilled parameter
		for _, ref := range *x.Referrers() {
			if st, ok := ref.(*ssa.Store); ok && st.Addr == x {
				if p, ok := st.Val.(*ssa.Parameter); ok && p == recv {
					return "recv"
				}
			}
		}
		return "local " + allocName(x)
	case *ssa.Parameter:
		if x == recv {
			return "recv"
		}
		return "param " + x.Name()
	case *ssa.Extract:
		if call, ok := x.Tuple.(*ssa.Call); ok && len(call.Call.Args) > 0 {
			if f, ok := accessorField(call.Call.StaticCallee(), x.Index); ok {
				return describeValue(call.Call.Args[0], recv) + "." + f
			}
		}
	case *ssa.Call:
		if len(x.Call.Args) > 0 && !x.Call.IsInvoke() {
			// o.HasValue(), o.GetValue(), o.Get(): methods that hand out a field of their receiver are that field
			if f, ok := accessorField(x.Call.StaticCallee(), 0); ok {
				return describeValue(x.Call.Args[0], recv) + "." + f
			}
		}
		var args []string
		for _, a := range x.Call.Args {
			args = append(args, describeValue(a, recv))
		}
		name := callName(&x.Call)
		if sc := x.Call.StaticCallee(); sc != nil {
			name = sc.Name()
			if i := strings.Index(name, "["); i > 0 {
				name = name[:i]
			}
			if sc.Signature.Recv() != nil && len(args) > 0 {
				return args[0] + "." + name + "(" + strings.Join(args[1:], ", ") + ")"
			}
		}
		return name + "(" + strings.Join(args, ", ") + ")"
	case *ssa.Const:
		if x.Value != nil {
			return x.Value.ExactString()
		}
		return "nil"
	}
	return "?" + v.Name()
}

// accessorField: when every return of the method fn hands out, as its i-th result, one and the same field of the receiver (paths
// that panic return nothing), the name of that field.
func accessorField(fn *ssa.Function, i int) (string, bool) {
	if fn == nil || len(fn.Blocks) == 0 || fn.Signature.Recv() == nil || len(fn.Params) == 0 {
		return "", false
	}
	pkg := fn.Pkg
	if pkg == nil && fn.Origin() != nil {
		pkg = fn.Origin().Pkg // an instance of a generic method
	}
	if pkg == nil || !strings.HasPrefix(pkg.Pkg.Path(), modRoot) {
		return "", false
	}
	recv := fn.Params[0]
	name, n := "", 0
	ok := true
	instrsOf(fn, func(in ssa.Instruction) {
		ret, isRet := in.(*ssa.Return)
		if !isRet {
			return
		}
		n++
		if i >= len(ret.Results) {
			ok = false
			return
		}
		d := describeValue(ret.Results[i], recv)
		if !strings.HasPrefix(d, "recv.") || strings.ContainsAny(d[5:], ".(?") {
			ok = false
			return
		}
		if name != "" && name != d[5:] {
			ok = false
		}
		name = d[5:]
	})
	return name, ok && n > 0 && name != ""
}

func ruleJSONShape(c *Ctx, rule string) {
	r := c.R
	type want struct {
		pkg, typ string
		keys     map[string]string // key -> source
		cond     map[string]string // key -> required condition ("" = unconditional)
	}
	wants := []want{
		{"engine", "Match", map[string]string{"filename": "recv.Filename", "matchNumber": "recv.MatchNumber", "offset": "recv.Offset", "line": "recv.Line",
			"column": "recv.Column", "value": "recv.Value", "variables": "recv.Variables", "replacement": "recv.Replacement.data"},
			map[string]string{"replacement": "recv.Replacement.hasValue"}},
		{"ds", "Range", map[string]string{"start": "recv.Start", "end": "recv.End"}, map[string]string{}},
	}
	for _, w := range wants {
		fn := c.Method(w.pkg, w.typ, "MarshalJSON")
		if fn == nil {
			r.Ob(rule, w.pkg+"."+w.typ+".MarshalJSON", "").Und("method not found")
			continue
		}
		recv := fn.Params[0]
		pd := NewPostDom(fn)
		cds := pd.ControlDeps()
		entries := map[string]*mapEntry{}
		var mapVal ssa.Value
		condsAt := func(b *ssa.BasicBlock) []string {
			var out []string
			for _, ce := range cds[b] {
				if iff, ok := ce.Branch.Instrs[len(ce.Branch.Instrs)-1].(*ssa.If); ok {
					d := describeValue(iff.Cond, recv)
					if ce.Succ == 1 {
						d = "!" + d
					}
					out = append(out, d)
				}
			}
			return out
		}
		instrsOf(fn, func(in ssa.Instruction) {
			mu, ok := in.(*ssa.MapUpdate)
			if !ok {
				return
			}
			k, ok := mu.Key.(*ssa.Const)
			if !ok || k.Value == nil || k.Value.Kind() != constant.String {
				return
			}
			e := &mapEntry{key: constant.StringVal(k.Value), src: describeValue(mu.Value, recv), in: mu, conds: condsAt(mu.Block())}
			entries[e.key] = e
			mapVal = mu.Map
		})
		// the object may also be a struct with json tags: the keys are the tag names, the sources what is stored into the fields
		structObj := false
		if len(entries) == 0 {
			instrsOf(fn, func(in ssa.Instruction) {
				call, ok := in.(*ssa.Call)
				if !ok || len(call.Call.Args) == 0 {
					return
				}
				sc := call.Call.StaticCallee()
				if sc == nil || sc.Pkg == nil || sc.Pkg.Pkg.Path() != "encoding/json" || !strings.HasPrefix(sc.Name(), "Marshal") {
					return
				}
				mi, ok := call.Call.Args[0].(*ssa.MakeInterface)
				if !ok {
					return
				}
				var alloc *ssa.Alloc
				switch x := mi.X.(type) {
				case *ssa.UnOp:
					alloc, _ = x.X.(*ssa.Alloc)
				case *ssa.Alloc:
					alloc = x
				}
				if alloc == nil {
					return
				}
				st, ok := deref(alloc.Type()).Underlying().(*types.Struct)
				if !ok {
					return
				}
				structObj = true
				mapVal = mi.X
				for i := 0; i < st.NumFields(); i++ {
					tag := reflect.StructTag(st.Tag(i)).Get("json")
					key, opts, _ := strings.Cut(tag, ",")
					if key == "-" {
						continue
					}
					if key == "" {
						key = st.Field(i).Name()
					}
					omitempty := strings.Contains(opts, "omitempty")
					_, isPtr := st.Field(i).Type().Underlying().(*types.Pointer)
					var e *mapEntry
					for _, ref := range *alloc.Referrers() {
						fa, ok := ref.(*ssa.FieldAddr)
						if !ok || fa.Field != i {
							continue
						}
						for _, r2 := range *fa.Referrers() {
							stv, ok := r2.(*ssa.Store)
							if !ok || stv.Addr != ssa.Value(fa) {
								continue
							}
							val := stv.Val
							// a pointer to a local that holds the value
							if a2, ok := val.(*ssa.Alloc); ok {
								for _, r3 := range *a2.Referrers() {
									if s3, ok := r3.(*ssa.Store); ok && s3.Addr == ssa.Value(a2) {
										val = s3.Val
									}
								}
							}
							e = &mapEntry{key: key, src: describeValue(val, recv), in: stv, conds: condsAt(stv.Block())}
						}
					}
					switch {
					case e == nil && omitempty:
						continue // never set: the key is never emitted
					case e == nil:
						e = &mapEntry{key: key, src: "zero value", in: call}
					case omitempty && !isPtr:
						e.conds = append(e.conds, "value is not empty")
					}
					entries[key] = e
				}
			})
		}
		_ = structObj
		// the object may be built by a helper of the receiver (`json.Marshal(m.jsonFields())`)
		if len(entries) == 0 {
			instrsOf(fn, func(in ssa.Instruction) {
				call, ok := in.(*ssa.Call)
				if !ok || len(call.Call.Args) == 0 || len(entries) > 0 {
					return
				}
				sc := call.Call.StaticCallee()
				if sc == nil || sc.Pkg == nil || sc.Pkg.Pkg.Path() != "encoding/json" || !strings.HasPrefix(sc.Name(), "Marshal") {
					return
				}
				mi, ok := call.Call.Args[0].(*ssa.MakeInterface)
				if !ok {
					return
				}
				hc, ok := mi.X.(*ssa.Call)
				if !ok {
					return
				}
				h := hc.Call.StaticCallee()
				if h == nil || !c.isRepoFn(h) || len(h.Blocks) == 0 || len(hc.Call.Args) == 0 || hc.Call.Args[0] != ssa.Value(recv) || len(h.Params) == 0 {
					return
				}
				hcds := NewPostDom(h).ControlDeps()
				hrecv := h.Params[0]
				instrsOf(h, func(y ssa.Instruction) {
					mu, ok := y.(*ssa.MapUpdate)
					if !ok {
						return
					}
					k, ok := mu.Key.(*ssa.Const)
					if !ok || k.Value == nil || k.Value.Kind() != constant.String {
						return
					}
					e := &mapEntry{key: constant.StringVal(k.Value), src: describeValue(mu.Value, hrecv), in: mu}
					for _, ce := range hcds[mu.Block()] {
						if iff, ok := ce.Branch.Instrs[len(ce.Branch.Instrs)-1].(*ssa.If); ok {
							d := describeValue(iff.Cond, hrecv)
							if ce.Succ == 1 {
								d = "!" + d
							}
							e.conds = append(e.conds, d)
						}
					}
					entries[e.key] = e
				})
				if len(entries) > 0 {
					mapVal = mi.X
				}
			})
		}
		// ... or written out by hand from constant text and integers only (`{"end":` + AppendInt + ...): the skeleton is checked
		handBuilt := false
		if len(entries) == 0 {
			if skel, srcs, ok := handBuiltJSON(fn, recv); ok {
				text := skel
				for i := range srcs {
					text = strings.Replace(text, "\x00", fmt.Sprintf("%d", 7000+i), 1)
				}
				var obj map[string]int
				if json.Unmarshal([]byte(text), &obj) == nil {
					handBuilt = true
					for k, v := range obj {
						if v >= 7000 && v-7000 < len(srcs) {
							entries[k] = &mapEntry{key: k, src: srcs[v-7000], in: fn.Blocks[0].Instrs[0]}
						}
					}
				}
			}
		}
		name := w.pkg + "." + w.typ + ".MarshalJSON"
		for _, k := range sortedKeys(w.keys) {
			ob := r.Ob(rule, fmt.Sprintf("%s: key %q", name, k), c.pos(fn.Pos()))
			e := entries[k]
			if e == nil {
				ob.Bad("the JSON object has no key " + k)
				continue
			}
			ob.Pos = c.pos(e.in.Pos())
			wantCond := w.cond[k]
			gotCond := strings.Join(e.conds, " && ")
			switch {
			case e.src != w.keys[k] && !(k == "replacement" && strings.HasPrefix(e.src, "recv.Replacement.GetValue")):
				ob.Bad(fmt.Sprintf("key %q is filled from %s, expected %s", k, e.src, w.keys[k]))
			case gotCond != wantCond:
				ob.Bad(fmt.Sprintf("key %q is emitted under condition [%s], expected [%s]", k, gotCond, wantCond))
			default:
				ob.OKnt(fmt.Sprintf("%q <- %s under [%s]", k, e.src, gotCond))
			}
		}
		for _, k := range sortedKeys(entries) {
			if _, ok := w.keys[k]; !ok {
				r.Ob(rule, fmt.Sprintf("%s: key %q", name, k), c.pos(entries[k].in.Pos())).Bad("undocumented key " + k + " in the JSON object")
			}
		}
		// the returned bytes are json.Marshal of that map
		ob := r.Ob(rule, name+": returns json.Marshal of the object", c.pos(fn.Pos()))
		okRet := false
		instrsOf(fn, func(in ssa.Instruction) {
			if call, ok := in.(*ssa.Call); ok {
				if sc := call.Call.StaticCallee(); sc != nil && sc.Pkg != nil && sc.Pkg.Pkg.Path() == "encoding/json" && strings.HasPrefix(sc.Name(), "Marshal") && len(call.Call.Args) > 0 {
					if mi, ok := call.Call.Args[0].(*ssa.MakeInterface); ok && mi.X == mapVal {
						okRet = true
					}
					// a struct-typed object is loaded right before the call: compare the location
					if mi, ok := call.Call.Args[0].(*ssa.MakeInterface); ok && mapVal != nil {
						if u1, ok := mi.X.(*ssa.UnOp); ok {
							if u2, ok := mapVal.(*ssa.UnOp); ok && u1.X == u2.X {
								okRet = true
							}
						}
					}
				}
			}
		})
		if handBuilt {
			ob.OKnt("the object is written out from constant text and decimal integers only; the skeleton parses as a JSON object")
			continue
		}
		ob.Check(okRet, "json.Marshal is applied to the map that was filled", "the map that is filled is not the value passed to json.Marshal")
	}
}

// ---------------------------------------------------------------------------------------------
// C17.R3 marshal cannot fail / produces JSON

func (c *Ctx) marshalJSONMethod(t types.Type) *types.Func {
	for _, tt := range []types.Type{t, types.NewPointer(t)} {
		ms := c.Prog.MethodSets.MethodSet(tt)
		if sel := ms.Lookup(nil, "MarshalJSON"); sel != nil {
			if f, ok := sel.Obj().(*types.Func); ok {
				return f
			}
		}
	}
	return nil
}

// jsonSafe decides whether encoding/json can marshal every value of static type t without error.
func (c *Ctx) jsonSafe(t types.Type, ifaceProducers map[string][]types.Type, seen map[string]bool, path string) (bool, string) {
	key := types.TypeString(t, nil)
	if seen[key] {
		return true, ""
	}
	seen[key] = true
	if n, ok := t.(*types.Named); ok && n.Obj().Pkg() != nil {
		if m := c.marshalJSONMethod(t); m != nil && c.isRepoPkg(m.Pkg()) {
			// a MarshalJSON with a pointer receiver is only used for addressable values; a value held in an interface, a map element
			// or passed by value is encoded by the default rules (Go field names) instead
			onValue := c.Prog.MethodSets.MethodSet(t).Lookup(nil, "MarshalJSON") != nil
			if !onValue && !strings.HasSuffix(path, "*") {
				return false, path + ": " + types.TypeString(t, shortQual) + " has MarshalJSON on the pointer receiver only, but is encoded here as a value that is not addressable: encoding/json skips the method and writes the Go field names"
			}
			return true, "" // its own MarshalJSON is examined separately
		}
	}
	switch u := t.Underlying().(type) {
	case *types.Basic:
		if u.Info()&(types.IsComplex) != 0 || u.Kind() == types.UnsafePointer {
			return false, path + ": " + u.String() + " cannot be marshalled"
		}
		return true, ""
	case *types.Pointer:
		return c.jsonSafe(u.Elem(), ifaceProducers, seen, path+"*")
	case *types.Slice:
		return c.jsonSafe(u.Elem(), ifaceProducers, seen, path+"[]")
	case *types.Array:
		return c.jsonSafe(u.Elem(), ifaceProducers, seen, path+"[]")
	case *types.Map:
		if b, ok := u.Key().Underlying().(*types.Basic); !ok || b.Info()&(types.IsString|types.IsInteger) == 0 {
			return false, path + ": map key type " + u.Key().String() + " is not a string or integer"
		}
		return c.jsonSafe(u.Elem(), ifaceProducers, seen, path+"[k]")
	case *types.Struct:
		for i := 0; i < u.NumFields(); i++ {
			if u.Field(i).Exported() {
				if ok, why := c.jsonSafe(u.Field(i).Type(), ifaceProducers, seen, path+"."+u.Field(i).Name()); !ok {
					return false, why
				}
			}
		}
		return true, ""
	case *types.Interface:
		ps := ifaceProducers[key]
		if len(ps) == 0 {
			return false, path + ": interface " + key + " with unknown dynamic types"
		}
		for _, p := range ps {
			if ok, why := c.jsonSafe(p, ifaceProducers, seen, path+"("+types.TypeString(p, shortQual)+")"); !ok {
				return false, why
			}
		}
		return true, ""
	case *types.Chan, *types.Signature:
		return false, path + ": " + t.String() + " cannot be marshalled"
	}
	return false, path + ": unsupported type " + t.String()
}

func ruleJSONMarshalSafe(c *Ctx, rule string) {
	r := c.R
	// producers of named repository interfaces (Value) from the MakeInterface inventory
	prods := c.producersOf()
	ifaceProducers := map[string][]types.Type{}
	for n, m := range prods {
		// recover types from strings is not possible; recompute directly
		_ = m
		ifaceProducers[types.TypeString(n, nil)] = nil
	}
	for fn := range c.allFns {
		if !c.isRepoFn(fn) {
			continue
		}
		instrsOf(fn, func(in ssa.Instruction) {
			if mi, ok := in.(*ssa.MakeInterface); ok {
				if n, ok := mi.Type().(*types.Named); ok && n.Obj().Pkg() != nil && c.isRepoPkg(n.Obj().Pkg()) {
					k := types.TypeString(n, nil)
					ifaceProducers[k] = append(ifaceProducers[k], mi.X.Type())
				}
			}
		})
	}
	n := 0
	for _, pkg := range []string{"engine", "ds"} {
		for _, fn := range c.SrcFuncs(pkg) {
			isMarshaler := fn.Name() == "MarshalJSON"
			k := 0
			usesJSON := false
			instrsOf(fn, func(in ssa.Instruction) {
				call, ok := in.(*ssa.Call)
				if !ok {
					return
				}
				sc := call.Call.StaticCallee()
				if sc == nil || sc.Pkg == nil || sc.Pkg.Pkg.Path() != "encoding/json" || !strings.HasPrefix(sc.Name(), "Marshal") || len(call.Call.Args) == 0 {
					return
				}
				usesJSON = true
				n++
				k++
				ob := r.Ob(rule, fmt.Sprintf("%s: json.%s call #%d cannot fail", fnName(fn), sc.Name(), k), c.pos(call.Pos()))
				arg := call.Call.Args[0]
				var ts []types.Type
				local := map[string][]types.Type{}
				for kk, v := range ifaceProducers {
					local[kk] = v
				}
				if mi, ok := arg.(*ssa.MakeInterface); ok {
					ts = append(ts, mi.X.Type())
					// a map[string]any built by a helper of this package: the dynamic types of `any` are what the helper stores
					if hc, ok := mi.X.(*ssa.Call); ok {
						if h := hc.Call.StaticCallee(); h != nil && c.isRepoFn(h) && len(h.Blocks) > 0 {
							if mp, ok := mi.X.Type().Underlying().(*types.Map); ok && types.IsInterface(mp.Elem()) {
								ek := types.TypeString(mp.Elem(), nil)
								instrsOf(h, func(in2 ssa.Instruction) {
									if mu, ok := in2.(*ssa.MapUpdate); ok {
										if vmi, ok := mu.Value.(*ssa.MakeInterface); ok {
											local[ek] = append(local[ek], vmi.X.Type())
										} else {
											local[ek] = append(local[ek], mu.Value.Type())
										}
									}
								})
							}
						}
					}
					// a map[string]any filled in this function: the dynamic types of `any` are the stored values
					if mp, ok := mi.X.Type().Underlying().(*types.Map); ok && types.IsInterface(mp.Elem()) {
						ek := types.TypeString(mp.Elem(), nil)
						instrsOf(fn, func(in2 ssa.Instruction) {
							if mu, ok := in2.(*ssa.MapUpdate); ok && mu.Map == mi.X {
								if vmi, ok := mu.Value.(*ssa.MakeInterface); ok {
									local[ek] = append(local[ek], vmi.X.Type())
								} else {
									local[ek] = append(local[ek], mu.Value.Type())
								}
							}
						})
					}
				} else if srcs, closed := ifaceSources(arg); closed && len(srcs) > 0 {
					ts = srcs
				} else if prm, isParam := arg.(*ssa.Parameter); isParam {
					// a rendering helper: the dynamic types are those its callers pass
					idx := -1
					for i, p := range fn.Params {
						if p == prm {
							idx = i
						}
					}
					okAll := idx >= 0
					for caller := range c.allFns {
						if !c.isRepoFn(caller) {
							continue
						}
						for _, cl := range callsTo(caller, fn) {
							if srcs, closed := ifaceSources(cl.Call.Args[idx]); closed && len(srcs) > 0 {
								ts = append(ts, srcs...)
							} else {
								okAll = false
							}
						}
					}
					if !okAll || len(ts) == 0 {
						ob.Und("the marshalled value is a parameter whose callers pass values of undetermined type")
						return
					}
				} else {
					ob.Und("the marshalled value's type is not determined")
					return
				}
				for _, t := range ts {
					if ok, why := c.jsonSafe(t, local, map[string]bool{}, types.TypeString(t, shortQual)); !ok {
						ob.Bad("json.Marshal can return an error (the caller panics on it): " + why)
						return
					}
				}
				var names []string
				for _, t := range ts {
					names = append(names, types.TypeString(t, shortQual))
				}
				ob.OKnt("type closure of " + strings.Join(names, ", ") + " contains only strings, integers, maps/slices of those and types with their own MarshalJSON")
			})
			if isMarshaler {
				ob := r.Ob(rule, fnName(fn)+": bytes come from encoding/json", c.pos(fn.Pos()))
				// every return's first result must be (an Extract of) a json.Marshal* call
				good := usesJSON
				instrsOf(fn, func(in ssa.Instruction) {
					ret, ok := in.(*ssa.Return)
					if !ok || len(ret.Results) == 0 {
						return
					}
					v := ret.Results[0]
					if ex, ok := v.(*ssa.Extract); ok {
						if call, ok := ex.Tuple.(*ssa.Call); ok {
							if sc := call.Call.StaticCallee(); sc != nil && sc.Pkg != nil && sc.Pkg.Pkg.Path() == "encoding/json" {
								return
							}
						}
					}
					good = false
				})
				if !good && len(fn.Params) > 0 {
					if skel, srcs, ok := handBuiltJSON(fn, fn.Params[0]); ok {
						text := skel
						for range srcs {
							text = strings.Replace(text, "\x00", "0", 1)
						}
						if json.Valid([]byte(text)) {
							ob.OKnt("the bytes are constant JSON text with decimal integers in between; no text that would need escaping is written")
							return
						}
					}
				}
				ob.Check(good, "every return hands back the result of a json.Marshal call", "a MarshalJSON method builds its bytes by hand instead of through encoding/json: nothing guarantees valid JSON for arbitrary text (control characters, invalid UTF-8)")
			}
		}
	}
	r.Floor(rule, "json.Marshal call sites", n, 4)
}

// ruleJSONRenderings implements C17.R4: Json and FormattedJson marshal the receiver itself.
func ruleJSONRenderings(c *Ctx, rule string) {
	r := c.R
	for _, typ := range []string{"Matches", "Match"} {
		var descs []string
		for _, m := range []string{"Json", "FormattedJson"} {
			fn := c.Method("engine", typ, m)
			ob := r.Ob(rule, "engine."+typ+"."+m+" marshals its receiver", "")
			if fn == nil {
				ob.Und("method not found")
				continue
			}
			ob.Pos = c.pos(fn.Pos())
			recv := fn.Params[0]
			found := ""
			strip := func(v ssa.Value) ssa.Value {
				for {
					switch x := v.(type) {
					case *ssa.MakeInterface:
						v = x.X
						continue
					case *ssa.ChangeType:
						v = x.X
						continue
					case *ssa.TypeAssert:
						v = x.X
						continue
					case *ssa.ChangeInterface:
						v = x.X
						continue
					case *ssa.Convert:
						v = x.X
						continue
					}
					return v
				}
			}
			instrsOf(fn, func(in ssa.Instruction) {
				if call, ok := in.(*ssa.Call); ok {
					// a rendering helper of the same package that hands one of its parameters to encoding/json
					if sc := call.Call.StaticCallee(); sc != nil && c.isRepoFn(sc) && sc.Pkg == fn.Pkg && found == "" {
						instrsOf(sc, func(y ssa.Instruction) {
							if c2, ok := y.(*ssa.Call); ok {
								if s2 := c2.Call.StaticCallee(); s2 != nil && s2.Pkg != nil && s2.Pkg.Pkg.Path() == "encoding/json" && len(c2.Call.Args) > 0 {
									if prm, ok := strip(c2.Call.Args[0]).(*ssa.Parameter); ok {
										for i, p := range sc.Params {
											if p == prm && i < len(call.Call.Args) {
												if strip(call.Call.Args[i]) == ssa.Value(recv) {
													found = s2.Name()
												} else {
													found = "other:" + describeValue(call.Call.Args[i], recv)
												}
											}
										}
									}
								}
							}
						})
					}
					if sc := call.Call.StaticCallee(); sc != nil && sc.Pkg != nil && sc.Pkg.Pkg.Path() == "encoding/json" && len(call.Call.Args) > 0 {
						v := call.Call.Args[0]
						for {
							switch x := v.(type) {
							case *ssa.MakeInterface:
								v = x.X
								continue
							case *ssa.ChangeType:
								v = x.X
								continue
							case *ssa.TypeAssert:
								v = x.X
								continue
							case *ssa.ChangeInterface:
								v = x.X
								continue
							}
							break
						}
						if v == ssa.Value(recv) {
							found = sc.Name()
						} else {
							found = "other:" + describeValue(call.Call.Args[0], recv)
						}
					}
				}
			})
			descs = append(descs, found)
			switch {
			case found == "" && callsOut(fn):
				// rendered somewhere this rule does not follow (function values, a chain of helpers): nothing to point at
				ob.Und("no encoding/json call found in the method or in the helpers it hands its receiver to directly; the rendering goes through other calls")
			case found == "":
				ob.Bad("no encoding/json call found")
			case strings.HasPrefix(found, "other:"):
				ob.Bad("marshals " + strings.TrimPrefix(found, "other:") + " instead of the receiver")
			default:
				ob.OKnt("json." + found + "(receiver): both renderings go through the same MarshalJSON methods")
			}
		}
		sort.Strings(descs)
	}
}

// ruleJSONTextUntouched implements C17.R5: what the four renderings return is the text encoding/json produced, converted to a
// string and nothing else. A textual rewrite of encoded JSON cannot tell an escape sequence from data.
func ruleJSONTextUntouched(c *Ctx, rule string) {
	r := c.R
	trims := map[string]bool{"strings.TrimSpace": true, "strings.TrimRight": true, "strings.TrimSuffix": true, "bytes.TrimSpace": true, "bytes.TrimRight": true, "bytes.TrimSuffix": true}
	type frame struct {
		bind map[*ssa.Parameter]ssa.Value
		up   *frame
	}
	// origin: "" = encoder output; otherwise a problem. und=true when the origin cannot be followed.
	var origin func(v ssa.Value, fr *frame, depth int, seen map[ssa.Value]bool) (problem string, und bool)
	fromEncoder := func(v ssa.Value, fr *frame) bool {
		p, u := origin(v, fr, 0, map[ssa.Value]bool{})
		return p == "" && !u
	}
	origin = func(v ssa.Value, fr *frame, depth int, seen map[ssa.Value]bool) (string, bool) {
		if depth > 12 {
			return "", true
		}
		if seen[v] {
			return "", false
		}
		seen[v] = true
		switch x := v.(type) {
		case *ssa.Convert:
			return origin(x.X, fr, depth+1, seen)
		case *ssa.ChangeType:
			return origin(x.X, fr, depth+1, seen)
		case *ssa.Const:
			if x.Value != nil && x.Value.Kind() == constant.String && json.Valid([]byte(constant.StringVal(x.Value))) {
				return "", false
			}
			return "the constant " + exprStr(x) + " is returned instead of encoder output", false
		case *ssa.Phi:
			for _, e := range x.Edges {
				if p, u := origin(e, fr, depth+1, seen); p != "" || u {
					return p, u
				}
			}
			return "", false
		case *ssa.Parameter:
			if fr != nil {
				if b, ok := fr.bind[x]; ok {
					return origin(b, fr.up, depth+1, seen)
				}
			}
			return "", true
		case *ssa.Extract:
			if call, ok := x.Tuple.(*ssa.Call); ok {
				if sc := call.Call.StaticCallee(); sc != nil && sc.Pkg != nil && sc.Pkg.Pkg.Path() == "encoding/json" && strings.HasPrefix(sc.Name(), "Marshal") {
					return "", false
				}
				if sc := call.Call.StaticCallee(); sc != nil && c.isRepoFn(sc) && len(sc.Blocks) > 0 {
					nf := &frame{bind: map[*ssa.Parameter]ssa.Value{}, up: fr}
					for i, p := range sc.Params {
						if i < len(call.Call.Args) {
							nf.bind[p] = call.Call.Args[i]
						}
					}
					var prob string
					und := false
					instrsOf(sc, func(in ssa.Instruction) {
						if ret, ok := in.(*ssa.Return); ok && x.Index < len(ret.Results) {
							if p, u := origin(ret.Results[x.Index], nf, depth+1, seen); p != "" || u {
								prob, und = p, u
							}
						}
					})
					return prob, und
				}
			}
			return "", true
		case *ssa.Call:
			sc := x.Call.StaticCallee()
			if sc == nil {
				return "", true
			}
			if c.isRepoFn(sc) && len(sc.Blocks) > 0 {
				nf := &frame{bind: map[*ssa.Parameter]ssa.Value{}, up: fr}
				for i, p := range sc.Params {
					if i < len(x.Call.Args) {
						nf.bind[p] = x.Call.Args[i]
					}
				}
				var prob string
				und := false
				instrsOf(sc, func(in ssa.Instruction) {
					if ret, ok := in.(*ssa.Return); ok && len(ret.Results) > 0 {
						if p, u := origin(ret.Results[0], nf, depth+1, seen); p != "" || u {
							prob, und = p, u
						}
					}
				})
				return prob, und
			}
			full := ""
			if sc.Pkg != nil {
				full = sc.Pkg.Pkg.Name() + "." + sc.Name()
			}
			if trims[full] && len(x.Call.Args) > 0 {
				return origin(x.Call.Args[0], fr, depth+1, seen)
			}
			for _, a := range x.Call.Args {
				if fromEncoder(a, fr) {
					return "the encoded text is rewritten by " + fnName(sc) + " after encoding", false
				}
			}
			return "", true
		}
		return "", true
	}
	n := 0
	for _, typ := range []string{"Matches", "Match"} {
		for _, m := range []string{"Json", "FormattedJson"} {
			fn := c.Method("engine", typ, m)
			if fn == nil {
				continue // reported by C17.R4
			}
			n++
			ob := r.Ob(rule, "engine."+typ+"."+m+" returns the encoder's text unmodified", c.pos(fn.Pos()))
			prob, und := "", false
			nret := 0
			instrsOf(fn, func(in ssa.Instruction) {
				if ret, ok := in.(*ssa.Return); ok && len(ret.Results) > 0 {
					nret++
					if p, u := origin(ret.Results[0], nil, 0, map[ssa.Value]bool{}); p != "" || u {
						if prob == "" {
							prob = p
						}
						und = und || u
					}
				}
			})
			switch {
			case prob != "":
				ob.Bad(prob + ": a textual rewrite of encoded JSON cannot tell an escape sequence from data, so some text yields an invalid or different document")
			case und || nret == 0:
				ob.Und("the returned text could not be followed back to an encoding/json call")
			default:
				ob.OKnt("every return is string(bytes returned by json.Marshal/MarshalIndent), possibly trimmed")
			}
		}
	}
	r.Floor(rule, "JSON renderings", n, 4)
}

// handBuiltJSON recognises a byte slice that is appended together from constant strings/bytes and strconv.AppendInt of integer
// values, and that is the only thing the function returns (with a nil error). It yields the text with a NUL byte for every integer
// and the description of each integer's source. Anything else that is appended (a string variable, a %s) makes it fail: such text
// would need escaping.
func handBuiltJSON(fn *ssa.Function, recv *ssa.Parameter) (string, []string, bool) {
	var rets []ssa.Value
	instrsOf(fn, func(in ssa.Instruction) {
		if r, ok := in.(*ssa.Return); ok && len(r.Results) >= 1 {
			rets = append(rets, r.Results[0])
		}
	})
	if len(rets) != 1 {
		return "", nil, false
	}
	var srcs []string
	var build func(v ssa.Value, depth int) (string, bool)
	build = func(v ssa.Value, depth int) (string, bool) {
		if depth > 40 {
			return "", false
		}
		switch x := v.(type) {
		case *ssa.MakeSlice:
			if k, ok := constInt(x.Len); ok && k == 0 {
				return "", true
			}
		case *ssa.Slice:
			// make([]byte, 0, constant): a fresh array sliced to length 0
			if _, isAlloc := x.X.(*ssa.Alloc); isAlloc && x.High != nil {
				if k, ok := constInt(x.High); ok && k == 0 {
					return "", true
				}
			}
		case *ssa.Const:
			if x.Value == nil {
				return "", true
			}
		case *ssa.Convert:
			if k, ok := x.X.(*ssa.Const); ok && k.Value != nil && k.Value.Kind() == constant.String {
				return constant.StringVal(k.Value), true
			}
			return build(x.X, depth+1)
		case *ssa.Call:
			if b, ok := x.Call.Value.(*ssa.Builtin); ok && b.Name() == "append" && len(x.Call.Args) == 2 {
				prev, ok := build(x.Call.Args[0], depth+1)
				if !ok {
					return "", false
				}
				switch a := x.Call.Args[1].(type) {
				case *ssa.Const:
					if a.Value != nil && a.Value.Kind() == constant.String {
						return prev + constant.StringVal(a.Value), true
					}
				case *ssa.Convert:
					if k, ok := a.X.(*ssa.Const); ok && k.Value != nil && k.Value.Kind() == constant.String {
						return prev + constant.StringVal(k.Value), true
					}
				case *ssa.Slice:
					// append(buf, 'c'): a one-element array literal
					if al, ok := a.X.(*ssa.Alloc); ok {
						text := ""
						okAll := true
						for _, ref := range *al.Referrers() {
							if ia, ok := ref.(*ssa.IndexAddr); ok {
								for _, r2 := range *ia.Referrers() {
									if st, ok := r2.(*ssa.Store); ok {
										if k, ok := constInt(st.Val); ok {
											text += string(rune(k))
										} else {
											okAll = false
										}
									}
								}
							}
						}
						if okAll && text != "" {
							return prev + text, true
						}
					}
				}
				return "", false
			}
			if sc := x.Call.StaticCallee(); sc != nil && sc.Pkg != nil && sc.Pkg.Pkg.Path() == "strconv" && sc.Name() == "AppendInt" && len(x.Call.Args) == 3 {
				prev, ok := build(x.Call.Args[0], depth+1)
				if !ok {
					return "", false
				}
				srcs = append(srcs, describeValue(stripConv(x.Call.Args[1]), recv))
				return prev + "\x00", true
			}
		}
		return "", false
	}
	text, ok := build(rets[0], 0)
	return text, srcs, ok
}

func stripConv(v ssa.Value) ssa.Value {
	for {
		if cv, ok := v.(*ssa.Convert); ok {
			v = cv.X
			continue
		}
		return v
	}
}

// callsOut: the function calls something other than library code it could be followed into (a repository function, or a
// function value): its result may be produced there.
func callsOut(fn *ssa.Function) bool {
	out := false
	instrsOf(fn, func(in ssa.Instruction) {
		call, ok := in.(ssa.CallInstruction)
		if !ok {
			return
		}
		cc := call.Common()
		if cc.IsInvoke() {
			return
		}
		if sc := cc.StaticCallee(); sc == nil {
			if _, isBuiltin := cc.Value.(*ssa.Builtin); !isBuiltin {
				out = true
			}
		} else if sc.Pkg != nil && strings.HasPrefix(sc.Pkg.Pkg.Path(), modRoot) {
			out = true
		}
	})
	return out
}
