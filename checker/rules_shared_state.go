package main

// GLOBAL / WHO rules about shared state: C19.R1–R4, C13.R1, C13.R3, C13.R5.

import (
	"fmt"
	"go/token"
	"go/types"
	"sort"
	"strings"

	"golang.org/x/tools/go/ssa"
)

func (c *Ctx) apiRoots() []*ssa.Function {
	return []*ssa.Function{
		c.Fn("libvore", "Compile"), c.Fn("libvore", "CompileFile"),
		c.Method("libvore", "Vore", "Run"), c.Method("libvore", "Vore", "RunFiles"),
	}
}

func (c *Ctx) runRoots() []*ssa.Function {
	return []*ssa.Function{c.Fn("engine", "Run"), c.Fn("engine", "RunFiles")}
}

func (c *Ctx) compileRoots() []*ssa.Function {
	return []*ssa.Function{c.Fn("libvore", "Compile"), c.Fn("libvore", "CompileFile")}
}

func anyNil(fs []*ssa.Function) bool {
	for _, f := range fs {
		if f == nil {
			return true
		}
	}
	return false
}

func sortedFns(m map[*ssa.Function]bool) []*ssa.Function {
	var out []*ssa.Function
	for f := range m {
		out = append(out, f)
	}
	sort.Slice(out, func(i, j int) bool { return fnName(out[i]) < fnName(out[j]) })
	return out
}

// lockSites lists, per function, the sync Lock/RLock calls whose mutex is released only by a deferred Unlock (or never),
// i.e. calls after which the mutex is held until the function returns.
func heldLocks(fn *ssa.Function) []ssa.Instruction {
	var locks []ssa.Instruction
	explicitUnlock := false
	instrsOf(fn, func(x ssa.Instruction) {
		callee := staticCallee(x)
		if callee == nil || callee.Pkg == nil || callee.Pkg.Pkg.Path() != "sync" {
			return
		}
		switch callee.Name() {
		case "Lock", "RLock":
			if _, isDefer := x.(*ssa.Defer); !isDefer {
				locks = append(locks, x)
			}
		case "Unlock", "RUnlock":
			if _, isDefer := x.(*ssa.Defer); !isDefer {
				explicitUnlock = true
			}
		}
	})
	if explicitUnlock {
		return nil // a non-deferred Unlock: the held region is not the rest of the function; not handled, treated as unprotected
	}
	// a call of a function that takes a lock and comes back with it held (and hands back the release, which the caller defers)
	instrsOf(fn, func(x ssa.Instruction) {
		call, ok := x.(*ssa.Call)
		if !ok {
			return
		}
		if w := call.Call.StaticCallee(); w != nil && w != fn && isAcquireWrapper(w) && releaseDeferred(fn, call) {
			locks = append(locks, x)
		}
	})
	return locks
}

// isAcquireWrapper: the function locks a sync mutex and never unlocks it itself.
func isAcquireWrapper(fn *ssa.Function) bool {
	locks, unlocks := 0, 0
	instrsOf(fn, func(x ssa.Instruction) {
		callee := staticCallee(x)
		if callee == nil || callee.Pkg == nil || callee.Pkg.Pkg.Path() != "sync" {
			return
		}
		switch callee.Name() {
		case "Lock", "RLock":
			locks++
		case "Unlock", "RUnlock":
			unlocks++
		}
	})
	return locks > 0 && unlocks == 0
}

// releaseDeferred: the caller defers the function value that the acquire wrapper handed back.
func releaseDeferred(fn *ssa.Function, call *ssa.Call) bool {
	ok := false
	instrsOf(fn, func(x ssa.Instruction) {
		if d, isD := x.(*ssa.Defer); isD && d.Call.Value == ssa.Value(call) {
			ok = true
		}
	})
	return ok
}

// lockProtected: the instruction is dominated by a sync Lock that is held to the end of its function; or its function is a
// closure passed to (*sync.Once).Do; or (interprocedural) its function is reachable from the roots only through a function F in
// which such a Lock dominates every call that can reach it.
func (c *Ctx) lockProtected(in ssa.Instruction, roots []*ssa.Function) bool {
	fn := in.Parent()
	for _, l := range heldLocks(fn) {
		if instrDominates(l, in) {
			return true
		}
	}
	if fn.Parent() != nil { // anonymous function: is it the argument of Once.Do?
		for _, ref := range fnReferrers(fn) {
			if mc, ok := ref.(*ssa.MakeClosure); ok {
				for _, r2 := range *mc.Referrers() {
					if callee := staticCallee(r2); callee != nil && callee.Pkg != nil && callee.Pkg.Pkg.Path() == "sync" && callee.Name() == "Do" {
						return true
					}
				}
			}
		}
	}
	// interprocedural: some F holds a lock around every call that reaches fn, and fn is reachable only through F
	for F := range c.Reachable(roots...) {
		if F == fn || !c.isRepoFn(F) {
			continue
		}
		locks := heldLocks(F)
		if len(locks) == 0 || !c.Reachable(F)[fn] || !c.onlyThrough(roots, F, fn) {
			continue
		}
		all := true
		instrsOf(F, func(x ssa.Instruction) {
			call, ok := x.(ssa.CallInstruction)
			if !ok {
				return
			}
			for _, callee := range c.calleesOf(call) {
				if callee == fn || c.Reachable(callee)[fn] {
					dominated := false
					for _, l := range locks {
						if instrDominates(l, x) {
							dominated = true
						}
					}
					if !dominated {
						all = false
					}
				}
			}
		})
		if all {
			return true
		}
	}
	return false
}

func fnReferrers(fn *ssa.Function) []ssa.Instruction {
	var out []ssa.Instruction
	if fn.Parent() == nil {
		return nil
	}
	instrsOf(fn.Parent(), func(in ssa.Instruction) {
		if mc, ok := in.(*ssa.MakeClosure); ok && mc.Fn == fn {
			out = append(out, in)
		}
		for _, op := range in.Operands(nil) {
			if *op == ssa.Value(fn) {
				out = append(out, in)
			}
		}
	})
	return out
}

// ruleGlobals implements C19.R1 (and, with compileOnly, the inventory used by C13.R5).
// One obligation per package-level variable of the analysed packages.
func ruleGlobals(c *Ctx, rule string, roots []*ssa.Function, rootDesc string) {
	r := c.R
	if anyNil(roots) {
		r.Ob(rule, "anchor:api-roots", "").Und("an API root function (" + rootDesc + ") was not found")
		return
	}
	reach := c.Reachable(roots...)
	nreach := 0
	for f := range reach {
		if c.isRepoFn(f) {
			nreach++
		}
	}
	r.Stats["reachable_repo_functions_"+rule] = nreach
	r.Stats["reachable_functions_"+rule] = len(reach)

	type access struct {
		in    ssa.Instruction
		write bool
		how   string
	}
	acc := map[*ssa.Global][]access{}
	mutM := c.mutatingMethods()
	for _, fn := range sortedFns(reach) {
		if !c.isRepoFn(fn) || fn.Name() == "init" {
			continue
		}
		instrsOf(fn, func(in ssa.Instruction) {
			switch x := in.(type) {
			case *ssa.Store:
				ch := traceAddr(x.Addr)
				if g, ok := ch.Root.(*ssa.Global); ok && c.isRepoPkg(g.Pkg.Pkg) {
					acc[g] = append(acc[g], access{in, true, "store " + ch.String()})
				}
			case *ssa.MapUpdate:
				ch := traceAddr(x.Map)
				if g, ok := ch.Root.(*ssa.Global); ok && c.isRepoPkg(g.Pkg.Pkg) {
					acc[g] = append(acc[g], access{in, true, "map update " + ch.String()})
				}
			case *ssa.UnOp:
				if x.Op == token.MUL {
					ch := traceAddr(x.X)
					if g, ok := ch.Root.(*ssa.Global); ok && c.isRepoPkg(g.Pkg.Pkg) {
						acc[g] = append(acc[g], access{in, false, "load " + ch.String()})
						// a reference (map, slice, pointer) read out of the variable: if it is put somewhere or handed to code that may write
						// through it, every later write through the alias is a write to shared memory
						if isRefType(x.Type()) || hasRefField(x.Type()) {
							if how := c.referenceEscapes(x, mutM, 0, map[ssa.Value]bool{}); how != "" {
								acc[g] = append(acc[g], access{in, true, "the reference loaded from " + ch.String() + " " + how})
							}
						}
					}
				}
			default:
				// the address of a global used in any other way (passed to a call, stored somewhere): treated as a write
				for _, op := range in.Operands(nil) {
					if g, ok := (*op).(*ssa.Global); ok && c.isRepoPkg(g.Pkg.Pkg) {
						switch in.(type) {
						case *ssa.FieldAddr, *ssa.IndexAddr, *ssa.DebugRef:
						default:
							acc[g] = append(acc[g], access{in, true, "address escapes"})
						}
					}
				}
			}
		})
	}
	// enumerate every package-level variable
	var globals []*ssa.Global
	for _, name := range []string{"main", "libvore", "algo", "ast", "bytecode", "ds", "engine", "files", "testutils"} {
		p := c.SSA[name]
		var ms []string
		for m := range p.Members {
			ms = append(ms, m)
		}
		sort.Strings(ms)
		for _, m := range ms {
			if g, ok := p.Members[m].(*ssa.Global); ok && !strings.HasPrefix(g.Name(), "init$") {
				globals = append(globals, g)
			}
		}
	}
	r.Stats["package_level_variables"] = len(globals)
	for _, g := range globals {
		ob := r.Ob(rule, "global "+shortName(g.Pkg.Pkg.Path())+"."+g.Name(), c.pos(g.Pos()))
		as := acc[g]
		// a channel or a sync.Pool at package level hands objects from one call to another: whether an object that was released is
		// still used by the call that released it (or was released twice) is a question about object lifetimes that this ownership
		// argument does not answer
		isPool := false
		if nt, ok := deref(g.Type()).(*types.Named); ok && nt.Obj().Pkg() != nil && nt.Obj().Pkg().Path() == "sync" && nt.Obj().Name() == "Pool" {
			isPool = true
		}
		if ch, ok := deref(g.Type()).Underlying().(*types.Chan); ok || isPool {
			if len(as) > 0 {
				what := "sync.Pool"
				if ch != nil {
					what = "channel of " + ch.Elem().String()
				}
				ob.Und(fmt.Sprintf("package-level %s used by %d reachable access(es): objects travel between concurrent calls through it; that a released object is not used again (or released twice) is not decided", what, len(as)))
				continue
			}
		}
		if declaredIn(deref(g.Type()), "sync", "sync/atomic") {
			ob.OK("synchronisation object of package sync: its methods are the synchronisation")
			continue
		}
		written := false
		for _, a := range as {
			if a.write {
				written = true
			}
		}
		if !written {
			ob.OKnt(fmt.Sprintf("not written by any of the %d repository functions reachable from %s (%d read(s))", nreach, rootDesc, len(as)))
			continue
		}
		var unprot []string
		for _, a := range as {
			if !c.lockProtected(a.in, roots) {
				unprot = append(unprot, fmt.Sprintf("%s in %s [%s]", a.how, fnName(a.in.Parent()), c.pos(a.in.Pos())))
			}
		}
		if len(unprot) == 0 {
			ob.OKnt(fmt.Sprintf("written, but each of the %d reachable accesses is dominated by a held sync Lock (in its own function, or in the only function through which it is reachable) or runs inside sync.Once.Do", len(as)))
		} else {
			ob.Bad("package-level variable accessed without synchronisation from code reachable from " + rootDesc + ": " + strings.Join(unprot, "; "))
		}
	}
}

// ruleNoGoUnsafe implements part of C19.R4: no go statements, no unsafe, no reflect-based writes, no cgo in the nine packages;
// calls that leave the repository go to an allow-list of packages whose used API is goroutine-safe.
func ruleLibraryCalls(c *Ctx, rule string) {
	r := c.R
	reach := c.Reachable(c.apiRoots()...)
	allowed := map[string]string{
		"fmt": "goroutine-safe", "strconv": "pure", "strings": "pure (Reader is per-call)", "os": "goroutine-safe syscalls",
		"io": "interfaces", "bufio": "per-call reader", "bytes": "per-call buffer", "unicode": "pure", "unicode/utf8": "pure",
		"math/rand": "top-level functions use the locked global source", "encoding/json": "goroutine-safe", "sort": "pure",
		"errors": "pure", "runtime": "runtime support", "internal/": "runtime support", "sync": "synchronisation",
		"math": "pure", "reflect": "read-only use by fmt/json", "io/fs": "interfaces", "time": "goroutine-safe", "log": "goroutine-safe",
		"math/bits": "pure", "slices": "pure", "maps": "pure", "cmp": "pure", "path/filepath": "pure", "path": "pure", "sync/atomic": "atomic",
	}
	goStmts := 0
	extPkgs := map[string]int{}
	var bad []string
	for _, fn := range sortedFns(reach) {
		if !c.isRepoFn(fn) {
			continue
		}
		instrsOf(fn, func(in ssa.Instruction) {
			if _, ok := in.(*ssa.Go); ok {
				goStmts++
				bad = append(bad, fmt.Sprintf("go statement in %s [%s]", fnName(fn), c.pos(in.Pos())))
			}
			if callee := staticCallee(in); callee != nil && !c.isRepoFn(callee) && callee.Pkg != nil {
				p := callee.Pkg.Pkg.Path()
				extPkgs[p]++
				if p == "math/rand" && callee.Signature.Recv() != nil {
					bad = append(bad, fmt.Sprintf("method call on a math/rand generator (%s) in %s: *rand.Rand is not goroutine-safe", callee.Name(), fnName(fn)))
				}
				if p == "unsafe" {
					bad = append(bad, "unsafe used in "+fnName(fn))
				}
			}
		})
	}
	for _, p := range c.AllPkgs {
		for _, imp := range p.Types.Imports() {
			if imp.Path() == "unsafe" || imp.Path() == "C" {
				bad = append(bad, p.PkgPath+" imports "+imp.Path())
			}
		}
	}
	var ps []string
	for p := range extPkgs {
		ps = append(ps, p)
	}
	sort.Strings(ps)
	for _, p := range ps {
		ob := r.Ob(rule, "external package "+p, "")
		ok := false
		for a := range allowed {
			if p == a || (strings.HasSuffix(a, "/") && strings.HasPrefix(p, a)) {
				ok = true
				ob.OK(fmt.Sprintf("%d static call site(s); allow-listed: %s", extPkgs[p], allowed[a]))
			}
		}
		if !ok {
			ob.Bad(fmt.Sprintf("%d call(s) into a package that is not on the goroutine-safety allow-list; review it and extend the table in the checker if it is safe", extPkgs[p]))
		}
	}
	ob := r.Ob(rule, "no go statements, unsafe or cgo in code reachable from Compile/Run", "")
	if len(bad) == 0 {
		ob.OK("none found")
	} else {
		ob.Bad(strings.Join(bad, "; "))
	}
}

// ---------------------------------------------------------------------------------------------
// Ownership: who may write program-owned memory

// programOwned computes the set of reference-typed SSA values that may point into memory owned by the compiled program
// (objects of types declared in bytecode/ast, *Vore), propagated through loads, slicing, phis, calls and returns of the
// repository functions in `fns`.
func (c *Ctx) programOwned(fns []*ssa.Function) map[ssa.Value]string {
	progPkgs := []string{modRoot + "/libvore/bytecode", modRoot + "/libvore/ast"}
	isProgType := func(t types.Type) bool {
		for _, e := range elemTypes(t) {
			if declaredIn(e, progPkgs...) {
				return true
			}
			if n, ok := e.(*types.Named); ok && n.Obj().Name() == "Vore" && n.Obj().Pkg() != nil && n.Obj().Pkg().Path() == modRoot+"/libvore" {
				return true
			}
		}
		return false
	}
	po := map[ssa.Value]string{}
	inSet := map[*ssa.Function]bool{}
	for _, f := range fns {
		inSet[f] = true
	}
	derives := func(v ssa.Value) (string, bool) {
		ch := traceAddr(v)
		if ch.Root != nil {
			if why, ok := po[ch.Root]; ok {
				return why, true
			}
		}
		for _, s := range ch.Steps {
			if s.RefVal != nil {
				if why, ok := po[s.RefVal]; ok {
					return why, true
				}
			}
			if s.Kind == "field" && s.Struct != nil && isProgType(s.Struct) {
				return "field " + s.Field + " of " + types.TypeString(s.Struct, shortQual), true
			}
		}
		return "", false
	}
	changed := true
	mark := func(v ssa.Value, why string) {
		if _, ok := po[v]; !ok && isRefType(v.Type()) {
			po[v] = why
			changed = true
		}
	}
	for iter := 0; changed && iter < 30; iter++ {
		changed = false
		for _, fn := range fns {
			for _, p := range fn.Params {
				if isRefType(p.Type()) && isProgType(p.Type()) {
					mark(p, "parameter "+p.Name()+" of "+fnName(fn)+" has a program type")
				}
			}
			instrsOf(fn, func(in ssa.Instruction) {
				v, isVal := in.(ssa.Value)
				if isVal && isRefType(v.Type()) {
					switch x := in.(type) {
					case *ssa.UnOp, *ssa.Field, *ssa.Index, *ssa.Slice, *ssa.ChangeType, *ssa.Lookup, *ssa.FieldAddr, *ssa.IndexAddr:
						if _, isAlloc := traceAddr(v).Root.(*ssa.Alloc); isAlloc && traceAddr(v).local() {
							// a purely local chain
						} else if why, ok := derives(v); ok {
							mark(v, why)
						}
						// values loaded from a local variable that holds a program-owned reference
						if u, ok := x.(*ssa.UnOp); ok && u.Op == token.MUL {
							if a, ok := traceAddr(u.X).Root.(*ssa.Alloc); ok {
								for _, ref := range *a.Referrers() {
									if st, ok := ref.(*ssa.Store); ok {
										if why, ok := po[st.Val]; ok {
											mark(v, why)
										}
									}
								}
							}
						}
					case *ssa.Phi:
						for _, e := range x.Edges {
							if why, ok := po[e]; ok {
								mark(v, why)
							}
						}
					case *ssa.TypeAssert:
						if why, ok := po[x.X]; ok {
							mark(v, why)
						}
					case *ssa.MakeInterface:
						if why, ok := po[x.X]; ok {
							mark(v, why)
						}
					case *ssa.ChangeInterface:
						if why, ok := po[x.X]; ok {
							mark(v, why)
						}
					case *ssa.Extract:
						if why, ok := po[x.Tuple]; ok {
							mark(v, why)
						}
					}
				}
				if call, ok := in.(ssa.CallInstruction); ok {
					cc := call.Common()
					var callees []*ssa.Function
					if sc := cc.StaticCallee(); sc != nil {
						callees = []*ssa.Function{sc}
					} else {
						callees = c.calleesOf(call)
					}
					for _, callee := range callees {
						if !inSet[callee] {
							continue
						}
						args := cc.Args
						params := callee.Params
						if cc.IsInvoke() {
							args = append([]ssa.Value{cc.Value}, args...)
						}
						for i, a := range args {
							if i < len(params) {
								if why, ok := po[a]; ok {
									mark(params[i], why+" (passed by "+fnName(fn)+")")
								}
							}
						}
						// results
						if cv, ok := call.(ssa.Value); ok {
							instrsOf(callee, func(ci ssa.Instruction) {
								if ret, ok := ci.(*ssa.Return); ok {
									for _, rv := range ret.Results {
										if why, ok := po[rv]; ok {
											mark(cv, why)
										}
									}
								}
							})
						}
					}
				}
			})
		}
	}
	return po
}

// ruleProgramReadOnly implements C13.R3 / C19.R2+R3: at run time no store goes to memory owned by the compiled
// program (types declared in bytecode or ast, or libvore.Vore), directly or through a reference handed down a call chain.
func ruleProgramReadOnly(c *Ctx, rule string) {
	r := c.R
	roots := c.runRoots()
	if anyNil(roots) {
		r.Ob(rule, "anchor:engine.Run/RunFiles", "").Und("engine.Run or engine.RunFiles not found")
		return
	}
	roots = append(roots, c.Method("libvore", "Vore", "Run"), c.Method("libvore", "Vore", "RunFiles"))
	reach := c.Reachable(roots...)
	var fns []*ssa.Function
	for _, fn := range sortedFns(reach) {
		if c.isRepoFn(fn) {
			fns = append(fns, fn)
		}
	}
	po := c.programOwned(fns)
	r.Stats["program_owned_reference_values"] = len(po)
	nstores := 0
	for _, fn := range fns {
		var viol []string
		var firstPos token.Pos
		instrsOf(fn, func(in ssa.Instruction) {
			var addr ssa.Value
			kind := ""
			switch x := in.(type) {
			case *ssa.Store:
				addr, kind = x.Addr, "store"
			case *ssa.MapUpdate:
				addr, kind = x.Map, "map update"
			case *ssa.Call:
				// `kept := program.Bytecode[:0]; kept = append(kept, c)`: the in-place filter writes into the array of the list it
				// was cut from
				if bi, ok := x.Call.Value.(*ssa.Builtin); ok && bi.Name() == "append" && len(x.Call.Args) > 0 {
					for _, leaf := range phiLeaves(x.Call.Args[0], nil) {
						sl, ok := leaf.(*ssa.Slice)
						if !ok {
							continue
						}
						why := ""
						if w, ok := po[sl.X]; ok {
							why = w
						} else if w, ok := po[traceAddr(sl.X).Root]; ok && !traceAddr(sl.X).local() {
							why = w
						}
						if why != "" {
							viol = append(viol, fmt.Sprintf("append to %s, a re-slice of a list of the compiled program (%s): the elements are written into the program's own array [%s]", exprStr(leaf), why, c.pos(in.Pos())))
							if firstPos == token.NoPos {
								firstPos = in.Pos()
							}
						}
					}
				}
				return
			default:
				return
			}
			nstores++
			ch := traceAddr(addr)
			if ch.local() {
				return
			}
			why := ""
			if w, ok := po[ch.Root]; ok {
				why = w
			}
			for _, s := range ch.Steps {
				if s.RefVal != nil {
					if w, ok := po[s.RefVal]; ok && why == "" {
						why = w
					}
				}
			}
			if why == "" {
				return
			}
			// a store into the method's own by-value copy is local even when the copy came from the program
			viol = append(viol, fmt.Sprintf("%s through %s, which points into the compiled program (%s) [%s]", kind, ch.String(), why, c.pos(in.Pos())))
			if firstPos == token.NoPos {
				firstPos = in.Pos()
			}
		})
		if len(viol) > 0 {
			r.Ob(rule, "run-time writer "+fnName(fn), c.pos(firstPos)).Bad("code reachable from Run/RunFiles writes memory owned by the compiled program: " + strings.Join(viol, "; "))
		}
	}
	r.Stats["run_reachable_repo_functions"] = len(fns)
	r.Stats["run_reachable_stores"] = nstores
	r.Ob(rule, "stores reachable from Run/RunFiles examined", "").OKnt(
		fmt.Sprintf("%d store/map-update instructions in %d repository functions reachable from engine.Run/RunFiles/(*Vore).Run/RunFiles, %d reference values may point into the compiled program; no store goes through any of them (violations, if any, are reported separately)", nstores, len(fns), len(po)))
}

func shortQual(p *types.Package) string { return p.Name() }

// adjustMethods lists the methods implementing bytecode.SearchInstruction.adjust.
func (c *Ctx) adjustMethods() []*ssa.Function {
	var out []*ssa.Function
	iface := c.NamedType("bytecode", "SearchInstruction")
	if iface == nil {
		return nil
	}
	it, ok := iface.Underlying().(*types.Interface)
	if !ok {
		return nil
	}
	scope := c.Pkgs["bytecode"].Types.Scope()
	names := scope.Names()
	sort.Strings(names)
	for _, n := range names {
		tn, ok := scope.Lookup(n).(*types.TypeName)
		if !ok {
			continue
		}
		named, ok := tn.Type().(*types.Named)
		if !ok || types.IsInterface(named) {
			continue
		}
		if !types.Implements(named, it) && !types.Implements(types.NewPointer(named), it) {
			continue
		}
		for i := 0; i < named.NumMethods(); i++ {
			if named.Method(i).Name() == "adjust" {
				if f := c.Prog.FuncValue(named.Method(i)); f != nil {
					out = append(out, f)
				}
			}
		}
	}
	return out
}

// ruleAdjustPure implements C13.R1: relocation never writes through a reference it got from its receiver.
func ruleAdjustPure(c *Ctx, rule string) {
	r := c.R
	ms := c.adjustMethods()
	r.Floor(rule, "methods implementing SearchInstruction.adjust", len(ms), 10)
	for _, fn := range ms {
		ob := r.Ob(rule, "pure "+fnName(fn), c.pos(fn.Pos()))
		var viol []string
		n := 0
		instrsOf(fn, func(in ssa.Instruction) {
			var addr ssa.Value
			switch x := in.(type) {
			case *ssa.Store:
				addr = x.Addr
			case *ssa.MapUpdate:
				addr = x.Map
			default:
				if call, ok := in.(ssa.CallInstruction); ok {
					// calls out of adjust with a reference argument derived from the receiver could mutate it: only builtins and pure calls are accepted
					if cal := call.Common().StaticCallee(); cal != nil && c.isRepoFn(cal) {
						viol = append(viol, "calls "+fnName(cal)+" (not analysed for purity)")
					}
				}
				return
			}
			n++
			ch := traceAddr(addr)
			if !ch.local() {
				viol = append(viol, fmt.Sprintf("writes shared memory %s [%s]", ch.String(), c.pos(in.Pos())))
			}
		})
		if len(viol) == 0 {
			if n == 0 {
				ob.OK("no stores")
			} else {
				ob.OKnt(fmt.Sprintf("%d store(s), all to the method's own copy of the receiver or to freshly made slices", n))
			}
		} else {
			ob.Bad("relocation mutates the stored instruction it was asked to copy: " + strings.Join(viol, "; "))
		}
	}
}

// ruleGlobalsReinit implements C13.R5: every package-level variable written by code reachable from Compile is
// re-initialised (stored with a constant) in a function that dominates its uses along ParseReader: here, that a constant store
// to it exists in a function on every path from ParseReader to any other access. Decided structurally: the variable is stored
// with a constant in a function F reachable from ParseReader, and every other accessing function is reachable from F only
// after that store (the store dominates the calls in F that reach the accessors).
func ruleGlobalsReinit(c *Ctx, rule string) {
	r := c.R
	roots := c.compileRoots()
	if anyNil(roots) {
		r.Ob(rule, "anchor:Compile", "").Und("libvore.Compile/CompileFile not found")
		return
	}
	reach := c.Reachable(roots...)
	type acc struct {
		in    ssa.Instruction
		write bool
		cst   bool
	}
	accs := map[*ssa.Global][]acc{}
	for _, fn := range sortedFns(reach) {
		if !c.isRepoFn(fn) || fn.Name() == "init" {
			continue
		}
		instrsOf(fn, func(in ssa.Instruction) {
			switch x := in.(type) {
			case *ssa.Store:
				if g, ok := traceAddr(x.Addr).Root.(*ssa.Global); ok && c.isRepoPkg(g.Pkg.Pkg) {
					_, isConst := x.Val.(*ssa.Const)
					accs[g] = append(accs[g], acc{in, true, isConst && x.Addr == ssa.Value(g)})
				}
			case *ssa.UnOp:
				if x.Op == token.MUL {
					if g, ok := traceAddr(x.X).Root.(*ssa.Global); ok && c.isRepoPkg(g.Pkg.Pkg) {
						accs[g] = append(accs[g], acc{in, false, false})
					}
				}
			case *ssa.MapUpdate:
				if g, ok := traceAddr(x.Map).Root.(*ssa.Global); ok && c.isRepoPkg(g.Pkg.Pkg) {
					accs[g] = append(accs[g], acc{in, true, false})
				}
			}
		})
	}
	var gs []*ssa.Global
	for g := range accs {
		gs = append(gs, g)
	}
	sort.Slice(gs, func(i, j int) bool { return gs[i].Name() < gs[j].Name() })
	n := 0
	for _, g := range gs {
		written := false
		for _, a := range accs[g] {
			written = written || a.write
		}
		if !written {
			continue
		}
		n++
		ob := r.Ob(rule, "reinitialised "+shortName(g.Pkg.Pkg.Path())+"."+g.Name(), c.pos(g.Pos()))
		// find a constant store that dominates everything else
		okReset := false
		why := "no constant store found"
		// candidates: the constant stores themselves, and every call of a helper that performs such a store on each of its paths
		// (begin_parse(): lock, reset, hand back the unlock) - for the caller the call is the reset
		type cand struct {
			in     ssa.Instruction
			helper *ssa.Function
		}
		var cands []cand
		for _, reset := range accs[g] {
			if !reset.cst {
				continue
			}
			cands = append(cands, cand{reset.in, nil})
			H := reset.in.Parent()
			always := len(H.Blocks) > 0 && NewPostDom(H).PostDominates(reset.in.Block(), H.Blocks[0])
			inner := true
			for _, a := range accs[g] {
				if a.in.Parent() == H && a.in != reset.in && !instrDominates(reset.in, a.in) {
					inner = false
				}
			}
			if always && inner {
				for caller := range reach {
					if !c.isRepoFn(caller) {
						continue
					}
					for _, cs := range callsTo(caller, H) {
						cands = append(cands, cand{cs, H})
					}
				}
			}
		}
		for _, reset := range cands {
			F := reset.in.Parent()
			all := true
			for _, a := range accs[g] {
				if a.in == reset.in || (reset.helper != nil && a.in.Parent() == reset.helper) {
					continue
				}
				if a.in.Parent() == F {
					if !instrDominates(reset.in, a.in) {
						all = false
						why = fmt.Sprintf("access in %s is not dominated by the reset", fnName(F))
					}
					continue
				}
				// a lives in another function: it must be reachable from F only through calls dominated by the reset, and not reachable
				// from the Compile roots without passing through F
				if !c.onlyThrough(roots, F, a.in.Parent()) {
					all = false
					why = fmt.Sprintf("%s can be reached from Compile without passing through %s", fnName(a.in.Parent()), fnName(F))
					continue
				}
				instrsOf(F, func(in ssa.Instruction) {
					if call, ok := in.(ssa.CallInstruction); ok {
						for _, callee := range c.calleesOf(call) {
							if callee == a.in.Parent() || c.Reachable(callee)[a.in.Parent()] {
								if !instrDominates(reset.in, in) {
									all = false
									why = fmt.Sprintf("call to %s in %s is not dominated by the reset", fnName(callee), fnName(F))
								}
							}
						}
					}
				})
			}
			if all {
				okReset = true
				ob.OKnt(fmt.Sprintf("stored with a constant in %s [%s]; that store dominates every other access reachable from Compile (%d accesses)", fnName(F), c.pos(reset.in.Pos()), len(accs[g])-1))
				break
			}
		}
		if !okReset {
			ob.Bad("package-level variable written during Compile is not re-initialised before use on every path from ParseReader: " + why + " — state leaks from one compilation into the next")
		}
	}
	if n == 0 {
		r.Ob(rule, "no package-level variable is written during Compile", "").OKnt("nothing to re-initialise")
	}
}

func (c *Ctx) calleesOf(call ssa.CallInstruction) []*ssa.Function {
	g := c.CG()
	n := g.Nodes[call.Parent()]
	var out []*ssa.Function
	if n == nil {
		return nil
	}
	for _, e := range n.Out {
		if e.Site == call && e.Callee.Func != nil {
			out = append(out, e.Callee.Func)
		}
	}
	return out
}

// onlyThrough: target is not reachable from roots when `through` is removed from the graph.
func (c *Ctx) onlyThrough(roots []*ssa.Function, through, target *ssa.Function) bool {
	g := c.CG()
	seen := map[*ssa.Function]bool{through: true}
	var work []*ssa.Function
	for _, r := range roots {
		if r != through {
			work = append(work, r)
			seen[r] = true
		}
	}
	for len(work) > 0 {
		f := work[len(work)-1]
		work = work[:len(work)-1]
		if f == target {
			return false
		}
		if n := g.Nodes[f]; n != nil {
			for _, e := range n.Out {
				if t := e.Callee.Func; t != nil && !seen[t] {
					seen[t] = true
					work = append(work, t)
				}
			}
		}
	}
	return true
}

// ruleCommandScope implements C13.R4: every GenState field that is written while search instructions are generated is
// re-created by each command generator before it generates anything, so that nothing leaks from one command into the next.
func ruleCommandScope(c *Ctx, rule string) {
	r := c.R
	gsi := c.Fn("bytecode", "generateSearchInstruction")
	genState := c.NamedType("bytecode", "GenState")
	if gsi == nil || genState == nil {
		r.Ob(rule, "anchor bytecode.generateSearchInstruction/GenState", "").Und("not found")
		return
	}
	under := c.Reachable(gsi)
	fieldOf := func(addr ssa.Value) (string, bool) {
		ch := traceAddr(addr)
		for _, s := range ch.Steps {
			if s.Kind == "field" && s.Struct != nil && types.Identical(s.Struct, genState) {
				return s.Field, true
			}
		}
		return "", false
	}
	written := map[string][]string{}
	writerFns := map[string]map[*ssa.Function]bool{}
	for _, fn := range sortedFns(under) {
		if !c.isRepoFn(fn) {
			continue
		}
		instrsOf(fn, func(in ssa.Instruction) {
			switch x := in.(type) {
			case *ssa.Store:
				if f, ok := fieldOf(x.Addr); ok {
					written[f] = append(written[f], fnName(fn))
					if writerFns[f] == nil {
						writerFns[f] = map[*ssa.Function]bool{}
					}
					writerFns[f][fn] = true
				}
			case *ssa.MapUpdate:
				if f, ok := fieldOf(x.Map); ok {
					written[f] = append(written[f], fnName(fn))
					if writerFns[f] == nil {
						writerFns[f] = map[*ssa.Function]bool{}
					}
					writerFns[f][fn] = true
				}
			}
		})
	}
	r.Floor(rule, "GenState fields written during search-instruction generation", len(written), 1)
	reachesWriter := func(callee *ssa.Function, f string) bool {
		if !under[callee] {
			return false
		}
		rs := c.Reachable(callee)
		for w := range writerFns[f] {
			if rs[w] {
				return true
			}
		}
		return false
	}
	// command generators: functions outside `under` that call into the part of it that writes GenState
	var gens []*ssa.Function
	for _, fn := range c.SrcFuncs("bytecode") {
		if under[fn] {
			continue
		}
		calls := false
		instrsOf(fn, func(in ssa.Instruction) {
			if sc := staticCallee(in); sc != nil {
				for f := range written {
					if reachesWriter(sc, f) {
						calls = true
					}
				}
			}
		})
		if calls {
			gens = append(gens, fn)
		}
	}
	// resetsOf: the instructions of g that store a fresh value into GenState.f, directly or by calling a helper that does
	resetsOf := func(g *ssa.Function, f string) []ssa.Instruction {
		var resets []ssa.Instruction
		instrsOf(g, func(in ssa.Instruction) {
			if st, ok := in.(*ssa.Store); ok {
				if fa, ok := st.Addr.(*ssa.FieldAddr); ok && types.Identical(deref(fa.X.Type()), genState) && fieldName(genState, fa.Field) == f && freshRef(st.Val, 0) {
					resets = append(resets, in)
				}
			}
			if call, ok := in.(*ssa.Call); ok {
				h := call.Call.StaticCallee()
				if h == nil || !c.isRepoFn(h) || len(h.Blocks) == 0 || under[h] {
					return
				}
				// a helper whose every path stores a fresh value into the field of the state it is handed
				pdh := NewPostDom(h)
				instrsOf(h, func(y ssa.Instruction) {
					if st, ok := y.(*ssa.Store); ok {
						if fa, ok := st.Addr.(*ssa.FieldAddr); ok && types.Identical(deref(fa.X.Type()), genState) && fieldName(genState, fa.Field) == f && freshRef(st.Val, 0) {
							if _, isParam := fa.X.(*ssa.Parameter); isParam && pdh.PostDominates(st.Block(), h.Blocks[0]) {
								resets = append(resets, in)
							}
						}
					}
				})
			}
		})
		return resets
	}
	// unresetCalls: the calls in g that reach a writer of f and are not dominated by a reset in g
	unresetCalls := func(g *ssa.Function, f string) []ssa.Instruction {
		resets := resetsOf(g, f)
		var out []ssa.Instruction
		instrsOf(g, func(in ssa.Instruction) {
			if sc := staticCallee(in); sc != nil && reachesWriter(sc, f) {
				for _, rs := range resets {
					if instrDominates(rs, in) {
						return
					}
				}
				out = append(out, in)
			}
		})
		return out
	}
	// per field: a function that generates without resetting is a helper of the command generators and the obligation moves to its
	// callers (a helper such as generateSearchSequence(exprs, offset, state)); otherwise it is a command generator itself
	baseReaches := reachesWriter
	nreal := 0
	for _, f := range sortedKeys(written) {
		helpers := map[*ssa.Function]bool{}
		reachesWriter = baseReaches
		var real []*ssa.Function
		for _, g := range gens {
			ncallers := 0
			for _, caller := range c.SrcFuncs("bytecode") {
				if caller != g && !under[caller] && len(callsTo(caller, g)) > 0 {
					ncallers++
				}
			}
			anyResetSomewhere := false
			for _, g2 := range c.SrcFuncs("bytecode") {
				if len(resetsOf(g2, f)) > 0 {
					anyResetSomewhere = true
				}
			}
			if len(unresetCalls(g, f)) > 0 && len(resetsOf(g, f)) == 0 && ncallers > 0 && anyResetSomewhere {
				helpers[g] = true
			} else {
				real = append(real, g)
			}
		}
		if len(helpers) > 0 {
			for h := range helpers {
				for _, caller := range c.SrcFuncs("bytecode") {
					if caller == h || under[caller] || helpers[caller] || len(callsTo(caller, h)) == 0 {
						continue
					}
					dup := false
					for _, g := range real {
						if g == caller {
							dup = true
						}
					}
					if !dup {
						real = append(real, caller)
					}
				}
			}
			reachesWriter = func(callee *ssa.Function, ff string) bool {
				if helpers[callee] {
					return true
				}
				return baseReaches(callee, ff)
			}
		}
		sort.Slice(real, func(i, j int) bool { return fnName(real[i]) < fnName(real[j]) })
		if len(real) > nreal {
			nreal = len(real)
		}
		for _, g := range real {
			ob := r.Ob(rule, fmt.Sprintf("%s resets GenState.%s before generating", fnName(g), f), c.pos(g.Pos()))
			bad := unresetCalls(g, f)
			if len(bad) == 0 {
				ob.OKnt(fmt.Sprintf("a fresh value is stored into state.%s before every call that generates search instructions (field written by %s)", f, strings.Join(uniq(written[f]), ", ")))
			} else {
				in := bad[0]
				why := fmt.Sprintf("the call to %s [%s] is not dominated by a store of a fresh value into state.%s", fnName(staticCallee(in)), c.pos(in.Pos()), f)
				ob.Bad(fmt.Sprintf("GenState.%s is written while generating search instructions (%s) but %s does not re-create it first: %s — what one command records is seen by the next", f, strings.Join(uniq(written[f]), ", "), fnName(g), why))
			}
		}
	}
	reachesWriter = baseReaches
	r.Floor(rule, "command generators calling generateSearchInstruction", nreal, 3)
}

// referenceEscapes: v holds (or contains) a reference read from shared memory. Returns "" when every use only reads through it
// (lookup, index, range, len, a non-mutating method), otherwise a description of the use through which the referent can be written
// or kept.
func (c *Ctx) referenceEscapes(v ssa.Value, mut map[*ssa.Function]string, depth int, seen map[ssa.Value]bool) string {
	if depth > 6 || seen[v] {
		return ""
	}
	seen[v] = true
	refs := v.Referrers()
	if refs == nil {
		return ""
	}
	for _, ref := range *refs {
		switch u := ref.(type) {
		case *ssa.DebugRef, *ssa.Lookup, *ssa.Range, *ssa.If:
			continue
		case *ssa.Index:
			continue
		case *ssa.IndexAddr:
			// element address: a store through it is a write, a load is a read
			for _, r2 := range *u.Referrers() {
				if st, ok := r2.(*ssa.Store); ok && st.Addr == ssa.Value(u) {
					return "is written through (element store at " + c.pos(st.Pos()) + ")"
				}
			}
			continue
		case *ssa.Field, *ssa.FieldAddr, *ssa.Extract, *ssa.ChangeType, *ssa.Phi, *ssa.Slice, *ssa.UnOp, *ssa.Convert:
			if val, ok := ref.(ssa.Value); ok && (isRefType(val.Type()) || hasRefField(val.Type()) || isRefType(deref(val.Type()))) {
				if how := c.referenceEscapes(val, mut, depth+1, seen); how != "" {
					return how
				}
			}
			continue
		case *ssa.BinOp:
			continue
		case *ssa.MapUpdate:
			if u.Map == v {
				return "is written through (map update at " + c.pos(u.Pos()) + ")"
			}
			return "is stored into a map at " + c.pos(u.Pos())
		case *ssa.Store:
			if u.Val == v {
				// the array behind a variadic argument list f(a, b...): what the callee does with its slice parameter decides
				if ia, ok := u.Addr.(*ssa.IndexAddr); ok {
					if arr, ok := ia.X.(*ssa.Alloc); ok && strings.HasPrefix(arr.Comment, "varargs") {
						how := ""
						for _, r2 := range *arr.Referrers() {
							if sl, ok := r2.(*ssa.Slice); ok {
								if h := c.referenceEscapes(sl, mut, depth+1, seen); h != "" {
									how = h
								}
							}
						}
						if how != "" {
							return how
						}
						continue
					}
				}
				// a local variable (spilled because a closure captures it): follow what is loaded from it, here and in the closures
				if a, ok := u.Addr.(*ssa.Alloc); ok {
					how := ""
					var follow func(ptr ssa.Value)
					follow = func(ptr ssa.Value) {
						if ptr.Referrers() == nil {
							return
						}
						for _, r2 := range *ptr.Referrers() {
							if how != "" {
								return
							}
							switch y := r2.(type) {
							case *ssa.UnOp:
								if y.Op == token.MUL {
									how = c.referenceEscapes(y, mut, depth+1, seen)
								}
							case *ssa.MakeClosure:
								if fnc, ok := y.Fn.(*ssa.Function); ok {
									for bi, b := range y.Bindings {
										if b == ptr && bi < len(fnc.FreeVars) {
											follow(fnc.FreeVars[bi])
										}
									}
								}
							}
						}
					}
					follow(a)
					if how != "" {
						return how
					}
					continue
				}
				return "is stored into " + exprStr(u.Addr) + " at " + c.pos(u.Pos()) + " (the run-time state now aliases the shared object)"
			}
			continue
		case *ssa.Call:
			if _, isFunc := v.Type().Underlying().(*types.Signature); isFunc && u.Call.Value == v {
				continue // a function value taken from a table is called: nothing is written through a function value
			}
			if b, ok := u.Call.Value.(*ssa.Builtin); ok {
				switch b.Name() {
				case "len", "cap":
					continue
				}
				return "is passed to " + b.Name() + " at " + c.pos(u.Pos())
			}
			sc := u.Call.StaticCallee()
			if sc != nil && c.isRepoFn(sc) {
				if _, isMut := mut[sc]; !isMut && len(u.Call.Args) > 0 && u.Call.Args[0] == v && sc.Signature.Recv() != nil {
					continue // a read-only method on it
				}
				// a function that only reads through the parameter it receives it in
				readOnly := len(sc.Blocks) > 0
				for i, a := range u.Call.Args {
					if a != v {
						continue
					}
					if i >= len(sc.Params) || c.referenceEscapes(sc.Params[i], mut, depth+1, seen) != "" {
						readOnly = false
					}
				}
				if readOnly {
					continue
				}
				return "is handed to " + fnName(sc) + " at " + c.pos(u.Pos())
			}
			if sc != nil && sc.Pkg != nil && (sc.Pkg.Pkg.Path() == "strings" || sc.Pkg.Pkg.Path() == "unicode" || sc.Pkg.Pkg.Path() == "fmt" || sc.Pkg.Pkg.Path() == "strconv") {
				continue
			}
			return "is passed to " + callName(&u.Call) + " at " + c.pos(u.Pos())
		case *ssa.MakeInterface, *ssa.Return, *ssa.MakeClosure:
			return "leaves the function at " + c.pos(ref.Pos())
		}
	}
	return ""
}

// ruleOnePassGeneration implements C13.R9: the commands of a source are generated in one pass, in source order. Definitions are
// looked up in the generator state when a command is generated, so a command sees exactly the definitions that precede it; a second
// pass that generates some commands (say, all `set` commands) ahead of the others makes a later definition visible to an earlier
// command.
func ruleOnePassGeneration(c *Ctx, rule string) {
	r := c.R
	gb := c.Fn("bytecode", "GenerateBytecode")
	gsT := c.NamedType("bytecode", "GenState")
	if gb == nil || gsT == nil {
		r.Ob(rule, "anchor bytecode.GenerateBytecode / GenState", "").Und("not found")
		return
	}
	ob := r.Ob(rule, "GenerateBytecode generates the commands in a single loop", c.pos(gb.Pos()))
	takesState := func(f *ssa.Function) bool {
		if f == nil || !c.isRepoFn(f) {
			return false
		}
		for _, p := range f.Params {
			if types.Identical(deref(p.Type()), gsT) {
				return true
			}
		}
		return false
	}
	loops := map[*ssa.BasicBlock]bool{} // loop headers (smallest block index of the innermost loop) with generator calls
	outside := 0
	instrsOf(gb, func(in ssa.Instruction) {
		call, ok := in.(*ssa.Call)
		if !ok || !takesState(call.Call.StaticCallee()) {
			return
		}
		l := innermostLoop(gb, call.Block())
		if l == nil {
			outside++
			return
		}
		var hd *ssa.BasicBlock
		for b := range l {
			if hd == nil || b.Index < hd.Index {
				hd = b
			}
		}
		loops[hd] = true
	})
	switch {
	case len(loops) == 1 && outside == 0:
		ob.OKnt("every call that works on the generator state is made from one loop over the commands")
	case len(loops) == 0:
		ob.Und("no loop that calls a generator function was found")
	default:
		ob.Bad(fmt.Sprintf("generator functions are called from %d different loops (and %d place(s) outside a loop): some commands are generated ahead of commands that precede them in the source, so a later definition can leak into an earlier command", len(loops), outside))
	}
}
