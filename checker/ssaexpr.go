package main

// A printer for SSA value trees in terms of source-level names (parameters, fields, phi variable names, constants).
// Used by the TABLE/ORDER rules over the engine so that conditions can be compared structurally, independent of
// register numbering and line numbers.

import (
	"fmt"
	"go/token"
	"go/types"
	"os"
	"strings"

	"golang.org/x/tools/go/ssa"
)

func exprStr(v ssa.Value) string { return exprStrD(v, 0) }

func exprStrD(v ssa.Value, d int) string {
	if v == nil {
		return "<nil>"
	}
	if d > 12 {
		return "…"
	}
	switch x := v.(type) {
	case *ssa.Const:
		if x.Value == nil {
			return "nil"
		}
		return x.Value.ExactString()
	case *ssa.Parameter:
		if s, ok := exprEnv[x]; ok {
			return s
		}
		return x.Name()
	case *ssa.FreeVar:
		return x.Name()
	case *ssa.Global:
		return x.Name()
	case *ssa.Phi:
		if x.Comment != "" {
			return "φ" + x.Comment
		}
		var es []string
		for _, e := range x.Edges {
			if e == ssa.Value(x) {
				continue
			}
			es = append(es, exprStrD(e, d+1))
		}
		return "φ(" + strings.Join(es, "|") + ")"
	case *ssa.BinOp:
		return "(" + exprStrD(x.X, d+1) + " " + x.Op.String() + " " + exprStrD(x.Y, d+1) + ")"
	case *ssa.UnOp:
		if x.Op == token.MUL {
			return exprStrD(x.X, d+1) // loads print as the location
		}
		return x.Op.String() + exprStrD(x.X, d+1)
	case *ssa.FieldAddr:
		// an embedded struct is not written in the source (its fields are promoted): es.cursor.offset prints as es.offset
		if embeddedField(deref(x.X.Type()), x.Field) {
			return exprStrD(x.X, d+1)
		}
		return exprStrD(x.X, d+1) + "." + fieldName(deref(x.X.Type()), x.Field)
	case *ssa.Field:
		if embeddedField(x.X.Type(), x.Field) {
			return exprStrD(x.X, d+1)
		}
		return exprStrD(x.X, d+1) + "." + fieldName(x.X.Type(), x.Field)
	case *ssa.IndexAddr:
		return exprStrD(x.X, d+1) + "[" + exprStrD(x.Index, d+1) + "]"
	case *ssa.Index:
		return exprStrD(x.X, d+1) + "[" + exprStrD(x.Index, d+1) + "]"
	case *ssa.Lookup:
		return exprStrD(x.X, d+1) + "[" + exprStrD(x.Index, d+1) + "]"
	case *ssa.Alloc:
		// a spilled parameter prints as the parameter
		for _, ref := range *x.Referrers() {
			if st, ok := ref.(*ssa.Store); ok && st.Addr == x {
				if p, ok := st.Val.(*ssa.Parameter); ok {
					if s, ok := exprEnv[p]; ok {
						return s
					}
					return p.Name()
				}
			}
		}
		if v := singleAssigned(x); v != nil {
			return exprStrD(v, d+1)
		}
		if x.Comment != "" {
			return x.Comment
		}
		return "local"
	case *ssa.Call:
		var as []string
		for _, a := range x.Call.Args {
			as = append(as, exprStrD(a, d+1))
		}
		if x.Call.IsInvoke() {
			return exprStrD(x.Call.Value, d+1) + "." + x.Call.Method.Name() + "(" + strings.Join(as, ", ") + ")"
		}
		if b, ok := x.Call.Value.(*ssa.Builtin); ok {
			return b.Name() + "(" + strings.Join(as, ", ") + ")"
		}
		if sc := x.Call.StaticCallee(); sc != nil {
			if inner := forwardedCall(sc); exprInlineForwarders && inner != nil && len(as) == len(sc.Params) {
				// m.ReplacementText() is m.Replacement.GetValueOrDefault(""): a method that only hands on a call prints as that call
				for i, p := range sc.Params {
					exprEnv[p] = as[i]
				}
				out := exprStrD(inner, d+1)
				for _, p := range sc.Params {
					delete(exprEnv, p)
				}
				return out
			}
			name := sc.Name()
			if i := strings.Index(name, "["); i > 0 {
				name = name[:i]
			}
			if sc.Signature.Recv() != nil && len(as) > 0 {
				return as[0] + "." + name + "(" + strings.Join(as[1:], ", ") + ")"
			}
			return name + "(" + strings.Join(as, ", ") + ")"
		}
		return "call(" + strings.Join(as, ", ") + ")"
	case *ssa.Extract:
		return exprStrD(x.Tuple, d+1) + fmt.Sprintf("#%d", x.Index)
	case *ssa.Convert:
		return types.TypeString(x.Type(), shortQual) + "(" + exprStrD(x.X, d+1) + ")"
	case *ssa.ChangeType:
		return exprStrD(x.X, d+1)
	case *ssa.MakeInterface:
		return exprStrD(x.X, d+1)
	case *ssa.ChangeInterface:
		return exprStrD(x.X, d+1)
	case *ssa.TypeAssert:
		return exprStrD(x.X, d+1) + ".(" + types.TypeString(x.AssertedType, shortQual) + ")"
	case *ssa.Slice:
		lo, hi := "", ""
		if x.Low != nil {
			lo = exprStrD(x.Low, d+1)
		}
		if x.High != nil {
			hi = exprStrD(x.High, d+1)
		}
		return exprStrD(x.X, d+1) + "[" + lo + ":" + hi + "]"
	case *ssa.MakeSlice:
		return "make"
	case *ssa.MakeMap:
		return "makemap"
	case *ssa.Function:
		return x.Name()
	}
	return v.Name()
}

// condsOf lists the branch conditions (with polarity) that an instruction's block is transitively control-dependent on.
type CondLit struct {
	Cond ssa.Value
	Pol  bool
	If   *ssa.If
}

// String renders the literal canonically: negations are folded into the comparison operator and `!x` taken false prints as `x`,
// so that equivalent formulations of one guard (early return vs. nested if, == vs. !=) print the same.
func (l CondLit) String() string {
	v, pol := l.Cond, l.Pol
	for {
		u, ok := v.(*ssa.UnOp)
		if !ok || u.Op != token.NOT {
			break
		}
		v, pol = u.X, !pol
	}
	if b, ok := v.(*ssa.BinOp); ok && !pol {
		flip := map[token.Token]token.Token{token.EQL: token.NEQ, token.NEQ: token.EQL, token.LSS: token.GEQ, token.GEQ: token.LSS, token.GTR: token.LEQ, token.LEQ: token.GTR}
		if f, ok := flip[b.Op]; ok {
			return "(" + exprStr(b.X) + " " + f.String() + " " + exprStr(b.Y) + ")"
		}
	}
	s := exprStr(v)
	if !pol {
		return "!" + s
	}
	return s
}

func condsOf(cds map[*ssa.BasicBlock][]CtrlEdge, b *ssa.BasicBlock) []CondLit {
	var out []CondLit
	seen := map[*ssa.BasicBlock]bool{}
	seenLit := map[string]bool{}
	var walk func(b *ssa.BasicBlock)
	walk = func(b *ssa.BasicBlock) {
		if seen[b] {
			return
		}
		seen[b] = true
		for _, ce := range cds[b] {
			if iff, ok := ce.Branch.Instrs[len(ce.Branch.Instrs)-1].(*ssa.If); ok {
				l := CondLit{iff.Cond, ce.Succ == 0, iff}
				key := fmt.Sprintf("%p%t", iff, l.Pol)
				if !seenLit[key] {
					seenLit[key] = true
					out = append(out, l)
				}
			}
			walk(ce.Branch)
		}
	}
	walk(b)
	return out
}

// loopOf returns the blocks of the innermost natural loop (SCC) of fn that contains block b, or nil.
func loopBlocks(fn *ssa.Function, b *ssa.BasicBlock) map[*ssa.BasicBlock]bool {
	for _, comp := range sccs(fn, func(a, c *ssa.BasicBlock) bool { return true }) {
		in := map[*ssa.BasicBlock]bool{}
		has := false
		for _, x := range comp {
			in[x] = true
			if x == b {
				has = true
			}
		}
		if has {
			return in
		}
	}
	return nil
}

// dataDeps computes the set of values that (transitively, through operands) depend on any value in src.
func dataDeps(fn *ssa.Function, src map[ssa.Value]bool) map[ssa.Value]bool {
	out := map[ssa.Value]bool{}
	for v := range src {
		out[v] = true
	}
	changed := true
	for changed {
		changed = false
		instrsOf(fn, func(in ssa.Instruction) {
			v, ok := in.(ssa.Value)
			if !ok || out[v] {
				return
			}
			for _, op := range in.Operands(nil) {
				if *op != nil && out[*op] {
					out[v] = true
					changed = true
					return
				}
			}
		})
	}
	return out
}

// linear flattens an integer expression built from + and - (and constants) into coefficient-per-term form, so that expressions
// that differ only in association, order or hoisted temporaries compare equal. Terms are rendered with exprStr after `rename`.
func linear(v ssa.Value, rename func(string) string) (map[string]int64, int64) {
	terms := map[string]int64{}
	var konst int64
	var walk func(v ssa.Value, sign int64, depth int)
	walk = func(v ssa.Value, sign int64, depth int) {
		if k, ok := constInt(v); ok {
			konst += sign * k
			return
		}
		if b, ok := v.(*ssa.BinOp); ok && depth < 20 {
			switch b.Op {
			case token.ADD:
				if bt, ok := b.Type().Underlying().(*types.Basic); ok && bt.Info()&types.IsInteger != 0 {
					walk(b.X, sign, depth+1)
					walk(b.Y, sign, depth+1)
					return
				}
			case token.SUB:
				walk(b.X, sign, depth+1)
				walk(b.Y, -sign, depth+1)
				return
			}
		}
		if c, ok := v.(*ssa.Convert); ok {
			if bt, ok := c.X.Type().Underlying().(*types.Basic); ok && bt.Info()&types.IsInteger != 0 {
				walk(c.X, sign, depth+1)
				return
			}
		}
		s := exprStr(v)
		if rename != nil {
			s = rename(s)
		}
		terms[s] += sign
		if terms[s] == 0 {
			delete(terms, s)
		}
	}
	walk(v, 1, 0)
	return terms, konst
}

func linearString(v ssa.Value, rename func(string) string) string {
	t, k := linear(v, rename)
	var parts []string
	for _, name := range sortedKeys(t) {
		switch t[name] {
		case 1:
			parts = append(parts, "+"+name)
		case -1:
			parts = append(parts, "-"+name)
		default:
			parts = append(parts, fmt.Sprintf("%+d*%s", t[name], name))
		}
	}
	if k != 0 || len(parts) == 0 {
		parts = append(parts, fmt.Sprintf("%+d", k))
	}
	return strings.Join(parts, " ")
}

// embeddedField: field i of struct type t is an embedded (anonymous) struct.
func embeddedField(t types.Type, i int) bool {
	st, ok := t.Underlying().(*types.Struct)
	if !ok || i >= st.NumFields() || !st.Field(i).Embedded() {
		return false
	}
	_, isStruct := deref(st.Field(i).Type()).Underlying().(*types.Struct)
	return isStruct
}

// exprInlineForwarders: print a call of a forwarding method as the call it hands on. Off by default, because the rules that name
// their anchors (Reader.ReadAt, ...) must keep seeing those names; the rules that compare what a value IS turn it on.
var exprInlineForwarders = false

func withForwarders() func() {
	old := exprInlineForwarders
	exprInlineForwarders = true
	return func() { exprInlineForwarders = old }
}

// exprEnv holds, while a forwarding method is printed in place of a call to it, what its parameters stand for at that call.
var exprEnv = map[*ssa.Parameter]string{}

var forwardedMemo = map[*ssa.Function]*ssa.Call{}

// forwardedCall: when fn is a repository function of one block that does nothing but return the result of one call whose
// operands are its parameters, their fields and constants, that call; otherwise nil.
func forwardedCall(fn *ssa.Function) *ssa.Call {
	if c, ok := forwardedMemo[fn]; ok {
		return c
	}
	forwardedMemo[fn] = nil
	if len(fn.Blocks) != 1 || fn.Pkg == nil || !strings.HasPrefix(fn.Pkg.Pkg.Path(), modRoot) || fn.Signature.Results().Len() != 1 {
		return nil
	}
	var call *ssa.Call
	for _, in := range fn.Blocks[0].Instrs {
		switch x := in.(type) {
		case *ssa.Call:
			if call != nil || x.Call.IsInvoke() || x.Call.StaticCallee() == nil {
				return nil
			}
			call = x
		case *ssa.FieldAddr, *ssa.Field, *ssa.DebugRef, *ssa.Slice, *ssa.BinOp, *ssa.Convert, *ssa.ChangeType, *ssa.MakeInterface, *ssa.Index, *ssa.IndexAddr:
		case *ssa.UnOp:
			if x.Op != token.MUL {
				return nil
			}
		case *ssa.Alloc:
			// a spilled value receiver
			for _, ref := range *x.Referrers() {
				if st, ok := ref.(*ssa.Store); ok {
					if _, isParam := st.Val.(*ssa.Parameter); !isParam {
						return nil
					}
				}
			}
		case *ssa.Store:
			if _, isParam := x.Val.(*ssa.Parameter); !isParam {
				return nil
			}
			if _, isAlloc := x.Addr.(*ssa.Alloc); !isAlloc {
				return nil
			}
		case *ssa.Return:
			if call == nil || len(x.Results) != 1 || x.Results[0] != ssa.Value(call) {
				return nil
			}
		default:
			return nil
		}
	}
	forwardedMemo[fn] = call
	if os.Getenv("VORECHECK_DEBUG_FWD") != "" {
		fmt.Fprintln(os.Stderr, "forwarder:", fn.String())
	}
	return call
}

// singleAssigned: a local that lives in memory only because a closure captures it, assigned exactly once and only read otherwise
// (by the function and by the closures): the value assigned. nil when the local is written twice, or its address goes elsewhere.
func singleAssigned(a *ssa.Alloc) ssa.Value {
	var val ssa.Value
	captured := false
	for _, ref := range *a.Referrers() {
		switch y := ref.(type) {
		case *ssa.Store:
			if y.Addr != ssa.Value(a) || val != nil {
				return nil
			}
			val = y.Val
		case *ssa.UnOp:
			if y.Op != token.MUL {
				return nil
			}
		case *ssa.DebugRef:
		case *ssa.MakeClosure:
			captured = true
			fn, _ := y.Fn.(*ssa.Function)
			if fn == nil {
				return nil
			}
			for i, b := range y.Bindings {
				if b != ssa.Value(a) || i >= len(fn.FreeVars) {
					continue
				}
				for _, r2 := range *fn.FreeVars[i].Referrers() {
					if u, ok := r2.(*ssa.UnOp); !ok || u.Op != token.MUL {
						return nil
					}
				}
			}
		default:
			return nil
		}
	}
	if !captured {
		return nil
	}
	if _, isParam := val.(*ssa.Parameter); isParam {
		return nil // printed as the parameter by the caller
	}
	return val
}
