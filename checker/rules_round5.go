package main

// Rules added after the fifth corpus of seeded changes.

import (
	"fmt"
	"go/constant"
	"go/token"
	"go/types"
	"sort"
	"strings"

	"golang.org/x/tools/go/ssa"
)

// ---------------------------------------------------------------------------------------------
// C01.R12 / C07.R10: files.Reader reads all or nothing.
//
// The VM takes an empty read for the end of the input and any non-empty read for exactly the bytes it asked for (`not 'ab'` compares
// what it read with the literal and then consumes len(literal) bytes). Every string that Reader.Read/ReadAt return is therefore ""
// or the whole buffer of `length` bytes - never a prefix of it.
func ruleReaderAllOrNothing(c *Ctx, rule string) {
	r := c.R
	n := 0
	for _, name := range []string{"Read", "ReadAt"} {
		fn := c.Method("files", "Reader", name)
		if fn == nil {
			r.Ob(rule, "anchor files.(*Reader)."+name, "").Und("not found")
			continue
		}
		var lengthP *ssa.Parameter
		for _, p := range fn.Params {
			if strings.Contains(strings.ToLower(p.Name()), "length") {
				lengthP = p
			}
		}
		ob := r.Ob(rule, fnName(fn)+": returns \"\" or exactly the bytes asked for", c.pos(fn.Pos()))
		if lengthP == nil {
			ob.Und("no parameter named length")
			continue
		}
		var bad, und []string
		nret := 0
		var analyse func(fn *ssa.Function, lengthP *ssa.Parameter, depth int)
		analyse = func(fn *ssa.Function, lengthP *ssa.Parameter, depth int) {
			instrsOf(fn, func(in ssa.Instruction) {
				ret, ok := in.(*ssa.Return)
				if !ok || len(ret.Results) != 1 {
					return
				}
				v := ret.Results[0]
				// the result of a helper of the package that is handed the length (readExactly(length, start, ...)): its returns count
				if call, ok := v.(*ssa.Call); ok && depth < 2 {
					if sc := call.Call.StaticCallee(); sc != nil && sc.Pkg == fn.Pkg && len(sc.Blocks) > 0 {
						for i, a := range call.Call.Args {
							if a == ssa.Value(lengthP) && i < len(sc.Params) {
								analyse(sc, sc.Params[i], depth+1)
								return
							}
						}
					}
				}
				nret++
				n++
				if k, ok := v.(*ssa.Const); ok && k.Value != nil && k.Value.Kind() == constant.String && constant.StringVal(k.Value) == "" {
					return
				}
				cv, ok := v.(*ssa.Convert)
				if !ok {
					und = append(und, c.pos(ret.Pos())+" returns "+exprStr(v))
					return
				}
				switch src := cv.X.(type) {
				case *ssa.MakeSlice:
					if src.Len == ssa.Value(lengthP) {
						return
					}
					if phi, ok := src.Len.(*ssa.Phi); ok {
						hasParam, other := false, ""
						for _, e := range phi.Edges {
							if e == ssa.Value(lengthP) {
								hasParam = true
							} else {
								other = exprStr(e)
							}
						}
						if hasParam && other != "" {
							bad = append(bad, c.pos(ret.Pos())+" returns a buffer that is sometimes "+other+" bytes long instead of the "+lengthP.Name()+" bytes asked for")
							return
						}
					}
					und = append(und, c.pos(ret.Pos())+" converts a buffer of "+exprStr(src.Len)+" bytes")
				case *ssa.Slice:
					if src.High != nil || src.Low != nil {
						bad = append(bad, c.pos(ret.Pos())+" returns a part of the buffer ("+exprStr(src)+")")
						return
					}
					und = append(und, c.pos(ret.Pos())+" returns "+exprStr(v))
				default:
					und = append(und, c.pos(ret.Pos())+" returns "+exprStr(v))
				}
			})
		}
		analyse(fn, lengthP, 0)
		switch {
		case len(bad) > 0:
			ob.Bad(strings.Join(bad, "; ") + ": a short, non-empty read differs from the literal it is compared with, so a negated literal (`not 'ab'`) and a `not in` list succeed on the last bytes of the input and consume them")
		case len(und) > 0 || nret == 0:
			ob.Und("cannot tell that every result is \"\" or the whole buffer: " + strings.Join(und, "; "))
		default:
			ob.OKnt(fmt.Sprintf("%d returns: \"\" or string(make([]byte, %s))", nret, lengthP.Name()))
		}
	}
	r.Floor(rule, "returns of Reader.Read/ReadAt", n, 4)
}

// ---------------------------------------------------------------------------------------------
// C01.R13: the generator emits the alternatives of a list in the order they were written.
//
// The alternatives of an `in` list are tried in written order (first match wins), like those of `or`. Nothing in the generator may
// reorder AST items: no call into package sort/slices with a value that derives from an AST node.
func ruleNoReorderingInGenerator(c *Ctx, rule string) {
	r := c.R
	n := 0
	for _, fn := range c.SrcFuncs("bytecode") {
		astParams := map[ssa.Value]bool{}
		for _, p := range fn.Params {
			if nt, ok := deref(p.Type()).(*types.Named); ok && nt.Obj().Pkg() != nil && strings.HasSuffix(nt.Obj().Pkg().Path(), "/ast") {
				astParams[p] = true
			}
			if sl, ok := p.Type().Underlying().(*types.Slice); ok {
				if nt, ok := sl.Elem().(*types.Named); ok && nt.Obj().Pkg() != nil && strings.HasSuffix(nt.Obj().Pkg().Path(), "/ast") {
					astParams[p] = true
				}
			}
		}
		var deps map[ssa.Value]bool
		instrsOf(fn, func(in ssa.Instruction) {
			call, ok := in.(*ssa.Call)
			if !ok {
				return
			}
			sc := call.Call.StaticCallee()
			if sc == nil || sc.Pkg == nil {
				return
			}
			p := sc.Pkg.Pkg.Path()
			if p != "sort" && p != "slices" {
				return
			}
			if p == "slices" && !strings.Contains(sc.Name(), "Sort") && !strings.Contains(sc.Name(), "Reverse") {
				return
			}
			n++
			ob := r.Ob(rule, fnName(fn)+": call of "+p+"."+sc.Name(), c.pos(call.Pos()))
			if deps == nil {
				deps = dataDepsMem(fn, astParams)
			}
			tainted := false
			for _, a := range call.Call.Args {
				if deps[a] {
					tainted = true
				}
				if mi, ok := a.(*ssa.MakeInterface); ok && deps[mi.X] {
					tainted = true
				}
			}
			if tainted || len(astParams) > 0 {
				ob.Bad("the generator reorders items that come from the AST: alternatives are tried in the order they are emitted, so the alternative written first no longer wins (`in 'ab', 'a', 'b'`)")
			} else {
				ob.OKnt("sorts something that does not come from the AST")
			}
		})
	}
	ob := r.Ob(rule, "the generator never reorders AST items", "")
	ob.OKnt(fmt.Sprintf("%d calls into sort/slices in package bytecode", n))
}

// ---------------------------------------------------------------------------------------------
// C02.R10: a reference to a name is compiled to a look-up (or to the stored definition), never to a text.
//
// What a name is bound to is decided on the path that is taken at run time. The generator function that handles a variable reference
// must not emit a literal for it ("the capture can only ever hold this text").
func ruleReferenceNotFolded(c *Ctx, rule string) {
	r := c.R
	varT := c.NamedType("ast", "AstVariable")
	litT := c.NamedType("bytecode", "MatchLiteral")
	if varT == nil || litT == nil {
		r.Ob(rule, "anchor ast.AstVariable / bytecode.MatchLiteral", "").Und("not found")
		return
	}
	n := 0
	for _, fn := range c.SrcFuncs("bytecode") {
		handles := false
		for _, p := range fn.Params {
			if types.Identical(deref(p.Type()), varT) {
				handles = true
			}
		}
		if !handles {
			continue
		}
		n++
		ob := r.Ob(rule, fnName(fn)+": a variable reference is not compiled to a literal", c.pos(fn.Pos()))
		var lits []string
		instrsOf(fn, func(in ssa.Instruction) {
			if a, ok := in.(*ssa.Alloc); ok && types.Identical(deref(a.Type()), litT) {
				lits = append(lits, c.pos(a.Pos()))
			}
		})
		if len(lits) == 0 {
			ob.OKnt("emits no MatchLiteral")
		} else {
			ob.Bad("builds a MatchLiteral at " + strings.Join(lits, ", ") + ": the reference then matches a text fixed at compile time although the name may be unbound, or bound to something else, on the path taken (`(('a' = x) or 'c') 'b' x` on \"cba\")")
		}
	}
	r.Floor(rule, "generator functions that handle a variable reference", n, 1)
}

// ---------------------------------------------------------------------------------------------
// C03.R8: ds.NewRange keeps its arguments in their places.
func ruleRangeKeepsOrder(c *Ctx, rule string) {
	r := c.R
	fn := c.Fn("ds", "NewRange")
	ob := r.Ob(rule, "ds.NewRange(start, end) is Range{Start: start, End: end}", "")
	if fn == nil || len(fn.Params) != 2 {
		ob.Und("ds.NewRange(start, end) not found")
		return
	}
	ob.Pos = c.pos(fn.Pos())
	var rets []*ssa.Return
	instrsOf(fn, func(in ssa.Instruction) {
		if ret, ok := in.(*ssa.Return); ok {
			rets = append(rets, ret)
		}
	})
	var s []string
	good := len(rets) > 0
	for _, ret := range rets {
		if len(ret.Results) != 1 {
			good = false
			continue
		}
		a, b, ok := rangeParts(ret.Results[0], 0)
		if !ok {
			ob.Und("the returned value " + exprStr(ret.Results[0]) + " is not a Range made in a way this rule can read")
			return
		}
		if a != ssa.Value(fn.Params[0]) || b != ssa.Value(fn.Params[1]) {
			good = false
			s = append(s, "Start <- "+exprStr(a)+", End <- "+exprStr(b))
		}
	}
	if good {
		ob.OKnt("Start <- " + fn.Params[0].Name() + ", End <- " + fn.Params[1].Name() + ", unconditionally")
	} else {
		ob.Bad("the bounds are not stored as given (" + strings.Join(s, "; ") + "): a match that ends left of its start column (it spans a line break) gets its columns swapped")
	}
}

// ---------------------------------------------------------------------------------------------
// C04.R9: every match of the window yields exactly one replaced match.
func ruleEveryMatchIsReplaced(c *Ctx, rule string) {
	r := c.R
	ex := c.Fn("engine", "executeReplace")
	mT := c.NamedType("engine", "Match")
	if ex == nil || mT == nil {
		r.Ob(rule, "anchor engine.executeReplace / Match", "").Und("not found")
		return
	}
	var sr *ssa.Function
	for _, f := range c.callersIn("engine", ex) {
		sr = f
	}
	// the function with the loop over the matches: sr itself, or its caller when sr handles one match
	cands := []*ssa.Function{}
	if sr != nil {
		cands = append(cands, sr)
		cands = append(cands, c.callersIn("engine", sr)...)
	}
	ob := r.Ob(rule, "replace: each match of the window is put into the result, unconditionally", "")
	for _, fn := range cands {
		pd := NewPostDom(fn)
		found := false
		var bad []string
		instrsOf(fn, func(in ssa.Instruction) {
			var at *ssa.BasicBlock
			switch x := in.(type) {
			case *ssa.Call:
				if b, ok := x.Call.Value.(*ssa.Builtin); ok && b.Name() == "append" && len(x.Call.Args) == 2 {
					if sl, ok := x.Type().Underlying().(*types.Slice); ok && types.Identical(sl.Elem(), mT) {
						at = x.Block()
					}
				}
			case *ssa.Store:
				if ia, ok := x.Addr.(*ssa.IndexAddr); ok && types.Identical(x.Val.Type(), mT) {
					if _, isLit := ia.X.(*ssa.Alloc); !isLit {
						at = x.Block()
					}
				}
			}
			if at == nil {
				return
			}
			loop := innermostLoop(fn, at)
			if loop == nil {
				return
			}
			found = true
			ob.Pos = c.pos(in.Pos())
			// the body of the loop: the successor of the loop's exit test that stays in the loop
			var body *ssa.BasicBlock
			for b := range loop {
				if iff, ok := b.Instrs[len(b.Instrs)-1].(*ssa.If); ok {
					in0, in1 := loop[b.Succs[0]], loop[b.Succs[1]]
					if in0 != in1 {
						_ = iff
						if in0 {
							body = b.Succs[0]
						} else {
							body = b.Succs[1]
						}
					}
				}
			}
			if body == nil {
				return
			}
			if !pd.PostDominates(at, body) && at != body {
				var conds []string
				for _, l := range domConds(fn, at) {
					if loop[l.If.Block()] {
						conds = append(conds, l.String())
					}
				}
				bad = append(bad, fmt.Sprintf("%s under [%s]", c.pos(in.Pos()), strings.Join(conds, " && ")))
			}
		})
		if !found {
			continue
		}
		if len(bad) == 0 {
			ob.OKnt("the place where a match enters the result post-dominates the body of the loop over the matches in " + fnName(fn))
		} else {
			ob.Bad("a match enters the result only " + strings.Join(bad, "; ") + ": matches of the window are dropped after the window was cut, so `replace top n`/`skip s`/`last n` are no longer slices of `replace all`")
		}
		return
	}
	ob.Und("no loop that collects replaced matches was found")
}

// ---------------------------------------------------------------------------------------------
// C05.R12: a capture reaches process code as the string it is.
func ruleCapturesAreStrings(c *Ctx, rule string) {
	r := c.R
	pvs := c.NamedType("engine", "ProcessValueString")
	pv := c.NamedType("engine", "ProcessValue")
	if pvs == nil || pv == nil {
		r.Ob(rule, "anchor engine.ProcessValueString", "").Und("not found")
		return
	}
	n := 0
	for _, fn := range c.SrcFuncs("engine") {
		instrsOf(fn, func(in ssa.Instruction) {
			mu, ok := in.(*ssa.MapUpdate)
			if !ok {
				return
			}
			mt, ok := mu.Map.Type().Underlying().(*types.Map)
			if !ok || !types.Identical(mt.Elem(), pv) {
				return
			}
			if _, isConst := mu.Key.(*ssa.Const); isConst {
				return // a built-in
			}
			if innermostLoop(fn, mu.Block()) == nil {
				return
			}
			n++
			ob := r.Ob(rule, fnName(fn)+": a captured variable is bound as a string", c.pos(mu.Pos()))
			var check func(v ssa.Value, d int) string
			check = func(v ssa.Value, d int) string {
				if d > 3 {
					return "?"
				}
				switch x := v.(type) {
				case *ssa.MakeInterface:
					if types.Identical(x.X.Type(), pvs) {
						return ""
					}
					return "a " + types.TypeString(x.X.Type(), shortQual)
				case *ssa.Phi:
					for _, e := range x.Edges {
						if w := check(e, d+1); w != "" {
							return w
						}
					}
					return ""
				case *ssa.Call:
					sc := x.Call.StaticCallee()
					if sc == nil || !c.isRepoFn(sc) || len(sc.Blocks) == 0 {
						return "the result of " + callName(&x.Call)
					}
					why := ""
					instrsOf(sc, func(y ssa.Instruction) {
						if ret, ok := y.(*ssa.Return); ok && len(ret.Results) == 1 {
							if w := check(ret.Results[0], d+1); w != "" {
								why = sc.Name() + " can return " + w
							}
						}
					})
					return why
				}
				return exprStr(v)
			}
			if why := check(mu.Value, 0); why == "" {
				ob.OKnt("the value is a ProcessValueString")
			} else {
				ob.Bad("the value bound for a capture is " + why + ": the text of a capture that looks like a number goes through a number (\"007\" becomes \"7\", `+` adds), so the transform no longer sees the matched text")
			}
		})
	}
	r.Floor(rule, "places where captures are bound for process code", n, 1)
}

// ---------------------------------------------------------------------------------------------
// C08.R13: the token list ends with the first EOF token (axiom A1 of C08.R5, checked on the lexer's side).
func ruleTokenListEndsAtEOF(c *Ctx, rule string) {
	r := c.R
	fn := c.Method("ast", "Lexer", "getTokens")
	ttT := c.NamedType("ast", "TokenType")
	ob := r.Ob(rule, "getTokens stops on every EOF token", "")
	if fn == nil || ttT == nil {
		ob.Und("ast.(*Lexer).getTokens / TokenType not found")
		return
	}
	ob.Pos = c.pos(fn.Pos())
	var eof constant.Value
	if p := c.Pkgs["ast"]; p != nil {
		if cst, ok := p.Types.Scope().Lookup("EOF").(*types.Const); ok {
			eof = cst.Val()
		}
	}
	if eof == nil {
		ob.Und("constant EOF not found")
		return
	}
	// the analysis begins right behind the call that produced the token: can that call be reached again?
	next := c.Method("ast", "Lexer", "getNextToken")
	var calls []*ssa.Call
	instrsOf(fn, func(in ssa.Instruction) {
		if call, ok := in.(*ssa.Call); ok && next != nil && call.Call.StaticCallee() == next && innermostLoop(fn, call.Block()) != nil {
			calls = append(calls, call)
		}
	})
	if len(calls) == 0 {
		ob.Und("getTokens does not call getNextToken in a loop")
		return
	}
	var cyc []string
	for _, call := range calls {
		idx := 0
		for i, x := range call.Block().Instrs {
			if x == ssa.Instruction(call) {
				idx = i
			}
		}
		w := &World{Fn: fn, StartBlock: call.Block(), StartIndex: idx + 1, Seed: func(v ssa.Value) (constant.Value, bool) {
			// the kind of the token just produced
			if u, ok := v.(*ssa.UnOp); ok && u.Op == token.MUL {
				if fa, ok := u.X.(*ssa.FieldAddr); ok && types.Identical(u.Type(), ttT) && fieldName(deref(fa.X.Type()), fa.Field) == "TokenType" {
					return eof, true
				}
			}
			return nil, false
		}, Interp: func(f *ssa.Function) bool { return f.Pkg == fn.Pkg && pureFunc(f, 0) }}
		w.Run()
		if w.Reentered {
			cyc = append(cyc, c.pos(call.Pos()))
		}
	}
	if len(cyc) == 0 {
		ob.OKnt("with the kind of the token just read fixed to EOF the call that reads the next token cannot be reached again")
	} else {
		sort.Strings(cyc)
		ob.Bad("with the kind of the token just read fixed to EOF the loop can still go round (" + strings.Join(uniq(cyc), ", ") + "): an EOF token can be followed by further tokens, and the parser, which takes EOF for the end of the list, never gets past it")
	}
}

// ---------------------------------------------------------------------------------------------
// C09.R17: no allocation is sized by a number written in the program.
func ruleNoAllocationFromProgramNumbers(c *Ctx, rule string, pkgs []string) {
	r := c.R
	userNumber := func(v ssa.Value) bool {
		name := ""
		switch x := v.(type) {
		case *ssa.Parameter:
			name = x.Name()
		case *ssa.Field:
			name = fieldName(x.X.Type(), x.Field)
		case *ssa.UnOp:
			if fa, ok := x.X.(*ssa.FieldAddr); ok && x.Op == token.MUL {
				name = fieldName(deref(fa.X.Type()), fa.Field)
			}
		}
		switch strings.ToLower(name) {
		case "skip", "take", "last", "min", "max", "minloops", "maxloops":
			if b, ok := v.Type().Underlying().(*types.Basic); ok && b.Info()&types.IsInteger != 0 {
				return true
			}
		}
		return false
	}
	n := 0
	for _, pk := range pkgs {
		for _, fn := range c.SrcFuncs(pk) {
			src := map[ssa.Value]bool{}
			instrsOf(fn, func(in ssa.Instruction) {
				if v, ok := in.(ssa.Value); ok && userNumber(v) {
					src[v] = true
				}
			})
			for _, p := range fn.Params {
				if userNumber(p) {
					src[p] = true
				}
			}
			if len(src) == 0 {
				continue
			}
			// through arithmetic only: the length of a list that was built is the size of data, not a number of the program
			deps := map[ssa.Value]bool{}
			for v := range src {
				deps[v] = true
			}
			for changed := true; changed; {
				changed = false
				instrsOf(fn, func(in ssa.Instruction) {
					v, ok := in.(ssa.Value)
					if !ok || deps[v] {
						return
					}
					switch x := in.(type) {
					case *ssa.BinOp:
						if deps[x.X] || deps[x.Y] {
							deps[v], changed = true, true
						}
					case *ssa.Convert:
						if deps[x.X] {
							deps[v], changed = true, true
						}
					case *ssa.ChangeType:
						if deps[x.X] {
							deps[v], changed = true, true
						}
					case *ssa.Phi:
						for _, e := range x.Edges {
							if deps[e] {
								deps[v], changed = true, true
							}
						}
					}
				})
			}
			instrsOf(fn, func(in ssa.Instruction) {
				switch x := in.(type) {
				case *ssa.MakeSlice:
					n++
					if deps[x.Len] || deps[x.Cap] {
						r.Ob(rule, fnName(fn)+": make is not sized by a number of the program", c.pos(x.Pos())).Bad("the size " + exprStr(x.Cap) + " derives from skip/take/last/min/max as written in the program: a large number makes the allocation fail (`makeslice: cap out of range`) before anything is searched")
					}
				case *ssa.Call:
					// handed to a constructor that allocates that many
					sc := x.Call.StaticCallee()
					if sc == nil || !c.isRepoFn(sc) || len(sc.Blocks) == 0 {
						return
					}
					for i, a := range x.Call.Args {
						if !deps[a] || i >= len(sc.Params) {
							continue
						}
						cd := dataDeps(sc, map[ssa.Value]bool{sc.Params[i]: true})
						instrsOf(sc, func(y ssa.Instruction) {
							if mk, ok := y.(*ssa.MakeSlice); ok && (cd[mk.Len] || cd[mk.Cap]) {
								n++
								r.Ob(rule, fnName(fn)+": "+sc.Name()+" is not asked to allocate a number of the program", c.pos(x.Pos())).Bad(sc.Name() + " allocates " + exprStr(mk.Cap) + " elements from its parameter " + sc.Params[i].Name() + ", which here is " + exprStr(a) + " - a number written in the program: a large one makes the allocation fail before anything is searched")
							}
						})
					}
				}
			})
		}
	}
	ob := r.Ob(rule, "no allocation is sized by skip/take/last/min/max", "")
	ob.OKnt(fmt.Sprintf("%d allocations in functions that see those numbers", n))
}

// ---------------------------------------------------------------------------------------------
// C18.R10: what the tool prints is not interpreted as a format.
func ruleNoDataAsFormat(c *Ctx, rule string, pkgs []string) {
	r := c.R
	// format position of the printf family
	fmtPos := map[string]int{"fmt.Printf": 0, "fmt.Sprintf": 0, "fmt.Errorf": 0, "fmt.Fprintf": 1, "log.Printf": 0, "log.Fatalf": 0, "log.Panicf": 0}
	posOf := func(sc *ssa.Function) (int, bool) {
		if sc == nil || sc.Pkg == nil || sc.Signature.Recv() != nil {
			return 0, false
		}
		p, ok := fmtPos[sc.Pkg.Pkg.Name()+"."+sc.Name()]
		return p, ok
	}
	// wrappers: functions of the repository that pass a string parameter on as the format
	wrap := map[*ssa.Function]int{}
	for iter := 0; iter < 3; iter++ {
		for _, pk := range pkgs {
			for _, fn := range c.SrcFuncs(pk) {
				instrsOf(fn, func(in ssa.Instruction) {
					call, ok := in.(*ssa.Call)
					if !ok {
						return
					}
					sc := call.Call.StaticCallee()
					fp, isP := posOf(sc)
					if !isP {
						if w, ok := wrap[sc]; ok {
							fp, isP = w, true
						}
					}
					if !isP || fp >= len(call.Call.Args) {
						return
					}
					f := call.Call.Args[fp]
					// format built from a parameter (format, or format + "\n")
					var prm *ssa.Parameter
					switch x := f.(type) {
					case *ssa.Parameter:
						prm = x
					case *ssa.BinOp:
						if p, ok := x.X.(*ssa.Parameter); ok && x.Op == token.ADD {
							prm = p
						}
					}
					if prm != nil {
						for i, q := range fn.Params {
							if q == prm {
								wrap[fn] = i
							}
						}
					}
				})
			}
		}
	}
	n := 0
	for _, pk := range pkgs {
		for _, fn := range c.SrcFuncs(pk) {
			k := 0
			instrsOf(fn, func(in ssa.Instruction) {
				call, ok := in.(*ssa.Call)
				if !ok {
					return
				}
				sc := call.Call.StaticCallee()
				fp, isP := posOf(sc)
				if !isP {
					if w, ok := wrap[sc]; ok {
						fp, isP = w, true
					}
				}
				if !isP || fp >= len(call.Call.Args) {
					return
				}
				n++
				f := call.Call.Args[fp]
				isConstFmt := func(v ssa.Value) bool {
					switch x := v.(type) {
					case *ssa.Const:
						return true
					case *ssa.BinOp:
						_, a := x.X.(*ssa.Const)
						_, b := x.Y.(*ssa.Const)
						return a && b
					}
					return false
				}
				if isConstFmt(f) {
					return
				}
				if _, own := wrap[fn]; own {
					if p, ok := f.(*ssa.Parameter); ok && fn.Params[wrap[fn]] == p {
						return // the wrapper itself
					}
					if b, ok := f.(*ssa.BinOp); ok {
						if p, ok := b.X.(*ssa.Parameter); ok && fn.Params[wrap[fn]] == p {
							return
						}
					}
				}
				k++
				r.Ob(rule, fmt.Sprintf("%s: format #%d of %s is a constant", fnName(fn), k, sc.Name()), c.pos(call.Pos())).Bad("the format is " + exprStr(f) + ", which is data: every '%' in it is taken for a verb, so what is printed is not what was computed (a JSON document with \"100%\" in a value becomes invalid)")
			})
		}
	}
	ob := r.Ob(rule, "no computed text is used as a format string", "")
	ob.OKnt(fmt.Sprintf("%d calls of the printf family (and of wrappers that pass their format on) examined", n))
}

// ---------------------------------------------------------------------------------------------
// C18.R11: the tool touches no output file before the program compiled.
func ruleNoFileBeforeCompile(c *Ctx, rule string) {
	r := c.R
	mainFn := c.Fn("main", "main")
	ob := r.Ob(rule, "main: no file is opened for writing before the program compiled", "")
	if mainFn == nil {
		ob.Und("main.main not found")
		return
	}
	ob.Pos = c.pos(mainFn.Pos())
	isCompile := func(sc *ssa.Function) bool {
		return sc != nil && sc.Pkg != nil && strings.HasSuffix(sc.Pkg.Pkg.Path(), "/libvore") && strings.HasPrefix(sc.Name(), "Compile")
	}
	var compiles []*ssa.Call
	var opens []*ssa.Call
	realOpen := map[*ssa.Call]*ssa.Call{}
	var visit func(fn *ssa.Function, top *ssa.Call, depth int)
	visit = func(fn *ssa.Function, top *ssa.Call, depth int) {
		instrsOf(fn, func(in ssa.Instruction) {
			call, ok := in.(*ssa.Call)
			if !ok {
				return
			}
			t := top
			if t == nil {
				t = call
			}
			sc := call.Call.StaticCallee()
			if isCompile(sc) {
				compiles = append(compiles, t)
			} else if sc == nil && !call.Call.IsInvoke() {
				// compile := libvore.Compile; ...; compile(text): a call through a function value whose every target compiles
				cs := c.calleesOf(call)
				all := len(cs) > 0
				for _, callee := range cs {
					if !isCompile(callee) {
						all = false
					}
				}
				if all {
					compiles = append(compiles, t)
				}
			}
			if sc != nil && sc.Pkg != nil && sc.Pkg.Pkg.Path() == "os" && (sc.Name() == "OpenFile" || sc.Name() == "Create") {
				opens = append(opens, t)
				realOpen[t] = call
			}
			if sc != nil && sc.Pkg == mainFn.Pkg && depth < 2 && len(sc.Blocks) > 0 {
				visit(sc, t, depth+1)
			}
		})
	}
	visit(mainFn, nil, 0)
	if len(compiles) == 0 {
		ob.Und("no call of libvore.Compile* reachable from main")
		return
	}
	var bad []string
	compileBlock := map[*ssa.BasicBlock]bool{}
	for _, cp := range compiles {
		compileBlock[cp.Block()] = true
	}
	for _, o := range opens {
		// the profile of the tool itself (os.Create handed to pprof) is not an output of the search
		isProfile := false
		ro := o
		if x, ok := realOpen[o]; ok {
			ro = x
		}
		for _, ref := range *ro.Referrers() {
			if ex, ok := ref.(*ssa.Extract); ok {
				for _, r2 := range *ex.Referrers() {
					if sc := staticCallee(r2); sc != nil && sc.Pkg != nil && strings.HasSuffix(sc.Pkg.Pkg.Path(), "pprof") {
						isProfile = true
					}
					if mi, ok := r2.(*ssa.MakeInterface); ok {
						for _, r3 := range *mi.Referrers() {
							if sc := staticCallee(r3); sc != nil && sc.Pkg != nil && strings.HasSuffix(sc.Pkg.Pkg.Path(), "pprof") {
								isProfile = true
							}
						}
					}
				}
			}
		}
		if isProfile {
			continue
		}
		// every path from the entry to the open passes a compilation
		seen := map[*ssa.BasicBlock]bool{}
		work := []*ssa.BasicBlock{mainFn.Blocks[0]}
		reached := false
		for len(work) > 0 {
			b := work[len(work)-1]
			work = work[:len(work)-1]
			if seen[b] || compileBlock[b] {
				continue
			}
			seen[b] = true
			if b == o.Block() {
				reached = true
				break
			}
			work = append(work, b.Succs...)
		}
		if reached {
			bad = append(bad, c.pos(o.Pos()))
		}
	}
	if len(bad) == 0 {
		ob.OKnt(fmt.Sprintf("%d place(s) that open a file, each behind the compilation", len(opens)))
	} else {
		sort.Strings(bad)
		ob.Bad("a file is opened (created) at " + strings.Join(uniq(bad), ", ") + " before the program was compiled: an invocation that fails with a compile error leaves a file behind")
	}
}

// ---------------------------------------------------------------------------------------------
// C20.R6: the file list is read from the file system every time.
func ruleListingReadsNoRunTimeState(c *Ctx, rule string) {
	r := c.R
	fn := c.Method("files", "Path", "GetFileList")
	ob := r.Ob(rule, "GetFileList reads no package-level variable that is written at run time", "")
	if fn == nil {
		ob.Und("files.(*Path).GetFileList not found")
		return
	}
	ob.Pos = c.pos(fn.Pos())
	written := map[*ssa.Global]string{}
	for f := range c.allFns {
		if !c.isRepoFn(f) || f.Name() == "init" {
			continue
		}
		instrsOf(f, func(in ssa.Instruction) {
			switch x := in.(type) {
			case *ssa.Store:
				if g, ok := traceAddr(x.Addr).Root.(*ssa.Global); ok && g.Pkg != nil && c.isRepoPkg(g.Pkg.Pkg) {
					written[g] = fnName(f)
				}
			case *ssa.MapUpdate:
				if g, ok := traceAddr(x.Map).Root.(*ssa.Global); ok && g.Pkg != nil && c.isRepoPkg(g.Pkg.Pkg) {
					written[g] = fnName(f)
				}
			}
		})
	}
	var bad []string
	for f := range c.Reachable(fn) {
		// the listing code proper: packages files and algo (the call graph also reaches error and formatting methods of other
		// packages through interface calls, which say nothing about the listing)
		if !c.isRepoFn(f) || f.Pkg == nil || !(strings.HasSuffix(f.Pkg.Pkg.Path(), "/files") || strings.HasSuffix(f.Pkg.Pkg.Path(), "/algo")) {
			continue
		}
		instrsOf(f, func(in ssa.Instruction) {
			if u, ok := in.(*ssa.UnOp); ok && u.Op == token.MUL {
				if g, ok := traceAddr(u.X).Root.(*ssa.Global); ok {
					if w, isW := written[g]; isW {
						bad = append(bad, fmt.Sprintf("%s (written by %s) read in %s [%s]", g.Name(), w, fnName(f), c.pos(u.Pos())))
					}
				}
			}
		})
	}
	if len(bad) == 0 {
		ob.OKnt("nothing below GetFileList reads a package-level variable that the program writes")
	} else {
		sort.Strings(bad)
		ob.Bad("the listing depends on " + strings.Join(uniq(bad), "; ") + ": what an earlier call saw survives, so files created later are missing and deleted ones are still listed")
	}
}

// ---------------------------------------------------------------------------------------------
// C14.R11 / C01.R14: every pass that renumbers program counters renumbers all of them.
//
// P is the set of instruction fields that the generator fills from its offset (C01.R2). A function of package bytecode, other than
// the adjust methods, that stores into one of them must store into every one of them (or the instructions it forgets keep stale
// targets).
func ruleRenumberingComplete(c *Ctx, rule string) {
	r := c.R
	P, _ := c.pcFields()
	if len(P) == 0 {
		r.Ob(rule, "anchor: pc-carrying instruction fields", "").Und("none found")
		return
	}
	n := 0
	for _, fn := range c.SrcFuncs("bytecode") {
		if fn.Name() == "adjust" {
			continue
		}
		// generator functions fill the fields of instructions they build; a renumbering pass writes fields of instructions it is handed
		touched := map[string]bool{}
		instrsOf(fn, func(in ssa.Instruction) {
			st, ok := in.(*ssa.Store)
			if !ok {
				return
			}
			fa, ok := st.Addr.(*ssa.FieldAddr)
			if !ok {
				return
			}
			nt, ok := deref(fa.X.Type()).(*types.Named)
			if !ok {
				return
			}
			key := nt.Obj().Name() + "." + fieldName(nt, fa.Field)
			if _, isPC := P[key]; !isPC {
				return
			}
			// the instruction comes out of a type switch/assertion on an existing instruction (not a literal under construction)
			a, isAlloc := fa.X.(*ssa.Alloc)
			if !isAlloc {
				touched[key] = true
				return
			}
			for _, ref := range *a.Referrers() {
				if s2, ok := ref.(*ssa.Store); ok && s2.Addr == ssa.Value(a) {
					if _, fromAssert := s2.Val.(*ssa.TypeAssert); fromAssert {
						touched[key] = true
					}
					if ex, ok := s2.Val.(*ssa.Extract); ok {
						if _, fromAssert := ex.Tuple.(*ssa.TypeAssert); fromAssert {
							touched[key] = true
						}
					}
				}
			}
		})
		if len(touched) < 2 {
			continue
		}
		n++
		ob := r.Ob(rule, fnName(fn)+": renumbers every program-counter field", c.pos(fn.Pos()))
		var missing []string
		for key := range P {
			if !touched[key] {
				missing = append(missing, key)
			}
		}
		sort.Strings(missing)
		if len(missing) == 0 {
			ob.OKnt(fmt.Sprintf("stores into all %d fields that carry a program counter", len(P)))
		} else {
			ob.Bad("rewrites " + strings.Join(sortedKeys(touched), ", ") + " but not " + strings.Join(missing, ", ") + ": those instructions keep their old targets after the pass")
		}
	}
	ob := r.Ob(rule, "renumbering passes cover all program-counter fields", "")
	ob.OKnt(fmt.Sprintf("%d passes outside adjust() that rewrite program counters of existing instructions", n))
}

// ---------------------------------------------------------------------------------------------
// Lexer worlds with the state AND the character fixed.

type lexerAnchors struct {
	lastWorld *World // the world of the latest call of world(), for rules that need to look at what stayed undecided
	fn        *ssa.Function
	statePhi  *ssa.Phi
	readCall  *ssa.Call
	names     map[string]string // value -> name
	byName    map[string]constant.Value
	loop      map[*ssa.BasicBlock]bool
	err       string
}

func (c *Ctx) lexerAnchors() *lexerAnchors {
	la := &lexerAnchors{names: map[string]string{}, byName: map[string]constant.Value{}}
	la.fn = c.Method("ast", "Lexer", "getNextToken")
	read := c.Method("ast", "Lexer", "read")
	var stateT types.Type
	if p := c.Pkgs["ast"]; p != nil {
		for _, obj := range p.TypesInfo.Defs {
			if cst, ok := obj.(*types.Const); ok {
				if nt, ok := cst.Type().(*types.Named); ok && nt.Obj().Name() == "TokenState" {
					stateT = nt
					la.names[cst.Val().ExactString()] = cst.Name()
					la.byName[cst.Name()] = cst.Val()
				}
			}
		}
	}
	if la.fn == nil || read == nil || stateT == nil {
		la.err = "ast.(*Lexer).getNextToken / read / TokenState not found"
		return la
	}
	uses := func(p *ssa.Phi) int {
		n := 0
		for _, ref := range *p.Referrers() {
			if b, ok := ref.(*ssa.BinOp); ok && (b.Op == token.EQL || b.Op == token.NEQ) {
				n++
			}
		}
		return n
	}
	instrsOf(la.fn, func(in ssa.Instruction) {
		if p, ok := in.(*ssa.Phi); ok && types.Identical(p.Type(), stateT) {
			if la.statePhi == nil || uses(p) > uses(la.statePhi) {
				la.statePhi = p
			}
		}
	})
	if la.statePhi == nil {
		la.err = "no loop-carried variable of type TokenState in getNextToken"
		return la
	}
	la.loop = innermostLoop(la.fn, la.statePhi.Block())
	for _, in := range la.statePhi.Block().Instrs {
		if call, ok := in.(*ssa.Call); ok && call.Call.StaticCallee() == read {
			la.readCall = call
		}
	}
	if la.loop == nil || la.readCall == nil {
		la.err = "the scanning loop does not start by reading a character"
	}
	return la
}

// world fixes state and character and reports the states that can reach the loop head again, and whether the loop can be left.
func (la *lexerAnchors) world(state constant.Value, ch rune) (next map[string]bool, leaves bool, unknownNext bool) {
	w := &World{Fn: la.fn, Seed: func(v ssa.Value) (constant.Value, bool) {
		if v == ssa.Value(la.statePhi) {
			return state, true
		}
		if v == ssa.Value(la.readCall) {
			return constant.MakeInt64(int64(ch)), true
		}
		return nil, false
	}, Interp: func(f *ssa.Function) bool { return f.Pkg == la.fn.Pkg && pureFunc(f, 0) }}
	w.Call = func(cl *ssa.Call, get func(ssa.Value) wLat) (wLat, bool) {
		// the character predicates of package unicode, on the one character this world is about
		sc := cl.Call.StaticCallee()
		if sc == nil || sc.Pkg == nil || sc.Pkg.Pkg.Path() != "unicode" || len(cl.Call.Args) != 1 {
			return wLat{}, false
		}
		a := get(cl.Call.Args[0])
		if a.k != 1 {
			return wLat{}, false
		}
		r, _ := constant.Int64Val(a.v)
		switch sc.Name() {
		case "IsSpace":
			return wBool(r == ' ' || r == '\t' || r == '\n' || r == '\r' || r == '\v' || r == '\f'), true
		case "IsDigit":
			return wBool(r >= '0' && r <= '9'), true
		case "IsLetter":
			return wBool((r >= 'a' && r <= 'z') || (r >= 'A' && r <= 'Z')), true
		}
		return wLat{}, false
	}
	w.Run()
	la.lastWorld = w
	next = map[string]bool{}
	head := la.statePhi.Block()
	for i, p := range head.Preds {
		if !la.loop[p] || !w.Reach[p] || !w.Edge[[2]*ssa.BasicBlock{p, head}] {
			continue
		}
		l := w.get(la.statePhi.Edges[i])
		if l.k == 1 {
			next[la.names[l.v.ExactString()]] = true
		} else {
			unknownNext = true
		}
	}
	for b := range la.loop {
		if !w.Reach[b] {
			continue
		}
		for _, s := range b.Succs {
			if !la.loop[s] && w.Edge[[2]*ssa.BasicBlock{b, s}] {
				leaves = true
			}
		}
	}
	return
}

// C15.R7: a newline ends a line comment, however short the comment is.
func ruleNewlineEndsLineComment(c *Ctx, rule string) {
	r := c.R
	la := c.lexerAnchors()
	if la.err != "" {
		r.Ob(rule, "anchor: the lexer's scanning loop", "").Und(la.err)
		return
	}
	n := 0
	for _, name := range sortedKeys(la.byName) {
		// the states of a comment that is not (yet) a block comment
		if !strings.Contains(name, "COMMENT") || strings.Contains(name, "BLOCK") {
			continue
		}
		n++
		ob := r.Ob(rule, "getNextToken: in state "+name+" a newline ends the token", c.pos(la.statePhi.Pos()))
		next, leaves, unk := la.world(la.byName[name], '\n')
		switch {
		case len(next) == 0 && !unk && leaves:
			ob.OKnt("with the state fixed to " + name + " and the character to '\\n' the loop is left and cannot go round")
		case len(next) > 0 || unk:
			ob.Bad(fmt.Sprintf("with the state fixed to %s and the character to '\\n' the loop goes on (next state %v): the newline is taken into the comment, which then runs to the end of the following line - an empty comment `--` swallows the next line of the program", name, sortedKeys(next)))
		default:
			ob.Und("the loop neither goes on nor is left")
		}
	}
	r.Floor(rule, "states of a line comment", n, 2)
}

// C15.R8: inside the end marker of a block comment, the marker's first character starts the marker again.
func ruleBlockCommentMarkerRestarts(c *Ctx, rule string) {
	r := c.R
	la := c.lexerAnchors()
	if la.err != "" {
		r.Ob(rule, "anchor: the lexer's scanning loop", "").Und(la.err)
		return
	}
	// the body state and the first character of the end marker: in the body state, the one character that leads to another state
	var body, first string
	var firstCh rune
	for _, name := range sortedKeys(la.byName) {
		if !strings.Contains(name, "BLOCKCOMMENT") {
			continue
		}
		for _, ch := range []rune{')', '-', ']', '}', '*', '/'} {
			next, _, _ := la.world(la.byName[name], ch)
			other, _, _ := la.world(la.byName[name], 'x')
			if len(next) == 1 && len(other) == 1 && other[name] && !next[name] {
				if body == "" {
					body, firstCh = name, ch
					for k := range next {
						first = k
					}
				}
			}
		}
	}
	if body == "" {
		r.Ob(rule, "anchor: the body state of a block comment and the first character of its end marker", "").Und("not found")
		return
	}
	n := 0
	for _, name := range sortedKeys(la.byName) {
		if !strings.Contains(name, "BLOCKCOMMENT") || name == body {
			continue
		}
		// a recognition state: the loop goes on from it on an ordinary character
		other, _, _ := la.world(la.byName[name], 'x')
		if len(other) == 0 {
			continue
		}
		n++
		ob := r.Ob(rule, fmt.Sprintf("getNextToken: in state %s a %q starts the end marker again", name, string(firstCh)), c.pos(la.statePhi.Pos()))
		next, _, unk := la.world(la.byName[name], firstCh)
		if len(next) == 1 && next[first] && !unk {
			ob.OKnt("next state " + first)
		} else {
			ob.Bad(fmt.Sprintf("with the state fixed to %s and the character to %q the next state is %v, not %s: a comment whose text ends in the beginning of its own end marker (`--( x )-)--`) is not closed, so what a comment contains decides how the program is read", name, string(firstCh), sortedKeys(next), first))
		}
	}
	r.Floor(rule, "recognition states of the block comment's end marker", n, 2)
}

// ---------------------------------------------------------------------------------------------
// C08.R14: the compile pipeline divides by nothing that can be zero.
//
// An integer division or remainder whose divisor is zero panics. Between the source text and the program (packages ast, bytecode
// and the entry points of libvore) every integer `/` and `%` must have a divisor that is a non-zero constant, or stand behind a
// test of that divisor against zero on every path. Today the pipeline does not divide at all; a constant folder or an
// alignment computation that is added later has to come with its guard.
func ruleNoUnguardedDivision(c *Ctx, rule string) {
	r := c.R
	nfn, ndiv := 0, 0
	for _, pkg := range []string{"ast", "bytecode", "libvore", "ds", "algo"} {
		for _, fn := range c.SrcFuncs(pkg) {
			nfn++
			instrsOf(fn, func(in ssa.Instruction) {
				b, ok := in.(*ssa.BinOp)
				if !ok || (b.Op != token.QUO && b.Op != token.REM) {
					return
				}
				bt, ok := b.Type().Underlying().(*types.Basic)
				if !ok || bt.Info()&types.IsInteger == 0 {
					return
				}
				ndiv++
				ob := r.Ob(rule, fmt.Sprintf("%s: divisor of %s is not zero", fnName(fn), exprStr(b)), c.pos(b.Pos()))
				if k, ok := constInt(b.Y); ok {
					if k != 0 {
						ob.OKnt("constant divisor")
					} else {
						ob.Bad("division by the constant zero")
					}
					return
				}
				d := exprStr(b.Y)
				for _, l := range domConds(fn, b.Block()) {
					cmp, ok := l.Cond.(*ssa.BinOp)
					if !ok {
						continue
					}
					x, y, op := cmp.X, cmp.Y, cmp.Op
					if k, ok := constInt(x); ok && k == 0 {
						x, y = y, x
						switch op {
						case token.LSS:
							op = token.GTR
						case token.GTR:
							op = token.LSS
						case token.LEQ:
							op = token.GEQ
						case token.GEQ:
							op = token.LEQ
						}
					}
					if k, ok := constInt(y); !ok || k != 0 || exprStr(x) != d {
						continue
					}
					// the literal as it holds on the way to the division
					nonzero := false
					switch op {
					case token.NEQ, token.GTR, token.LSS:
						nonzero = l.Pol
					case token.EQL:
						nonzero = !l.Pol
					}
					if nonzero {
						ob.OKnt("behind the test " + l.String())
						return
					}
				}
				ob.Bad("the divisor " + d + " comes from the program text (or is computed) and nothing on the way tests it against zero: a zero makes Compile panic with `integer divide by zero` instead of returning an error")
			})
		}
	}
	ob := r.Ob(rule, "integer divisions between source text and program", "")
	ob.OK(fmt.Sprintf("%d function(s) of ast, bytecode, ds, algo and libvore examined, %d integer division(s)", nfn, ndiv))
	r.Floor(rule, "functions examined for integer division", nfn, 150)
}

// ---------------------------------------------------------------------------------------------
// C08.R15: no nil pointer dressed up as an error.
//
// A nil *ParseError stored in a variable of type `error` is a non-nil error whose Error() dereferences nil: Compile answers an
// error for a correct program and the caller's err.Error() panics. Every conversion of a pointer to the `error` interface, in the
// packages between source text and program, must convert a pointer that is not nil: a fresh allocation, the result of a function
// all of whose returns are such, or a value tested against nil on the way.
func ruleNoTypedNilError(c *Ctx, rule string) {
	r := c.R
	memo := map[*ssa.Function]map[int]int{} // 1 = never nil, 2 = may be nil (witness), 3 = unknown
	var nonNil func(v ssa.Value, depth int) (int, string)
	resultKind := func(fn *ssa.Function, idx int, depth int) (int, string) {
		if m, ok := memo[fn]; ok {
			if k, ok := m[idx]; ok {
				return k, ""
			}
		} else {
			memo[fn] = map[int]int{}
		}
		memo[fn][idx] = 3
		if len(fn.Blocks) == 0 {
			return 3, ""
		}
		kind, why := 1, ""
		instrsOf(fn, func(in ssa.Instruction) {
			ret, ok := in.(*ssa.Return)
			if !ok || idx >= len(ret.Results) {
				return
			}
			k, w := nonNil(ret.Results[idx], depth+1)
			if k > kind {
				kind, why = k, w
				if w == "" && k == 2 {
					why = c.pos(ret.Pos()) + " returns nil"
				}
			}
		})
		memo[fn][idx] = kind
		return kind, why
	}
	nonNil = func(v ssa.Value, depth int) (int, string) {
		if depth > 6 {
			return 3, ""
		}
		switch x := v.(type) {
		case *ssa.Alloc, *ssa.FieldAddr, *ssa.IndexAddr, *ssa.MakeMap, *ssa.MakeSlice, *ssa.MakeChan, *ssa.MakeClosure, *ssa.Function, *ssa.Global:
			return 1, ""
		case *ssa.Const:
			if x.Value == nil {
				return 2, ""
			}
			return 1, ""
		case *ssa.Phi:
			kind, why := 1, ""
			for _, e := range x.Edges {
				if e == ssa.Value(x) {
					continue
				}
				if k, w := nonNil(e, depth+1); k > kind {
					kind, why = k, w
				}
			}
			return kind, why
		case *ssa.Call:
			if sc := x.Call.StaticCallee(); sc != nil && c.isRepoFn(sc) {
				return resultKind(sc, 0, depth)
			}
		case *ssa.Extract:
			if call, ok := x.Tuple.(*ssa.Call); ok {
				if sc := call.Call.StaticCallee(); sc != nil && c.isRepoFn(sc) {
					return resultKind(sc, x.Index, depth)
				}
			}
		case *ssa.ChangeType:
			return nonNil(x.X, depth+1)
		}
		return 3, ""
	}
	n := 0
	for _, pkg := range []string{"ast", "bytecode", "libvore"} {
		for _, fn := range c.SrcFuncs(pkg) {
			instrsOf(fn, func(in ssa.Instruction) {
				mi, ok := in.(*ssa.MakeInterface)
				if !ok || !types.Identical(mi.Type(), types.Universe.Lookup("error").Type()) {
					return
				}
				if _, isPtr := mi.X.Type().Underlying().(*types.Pointer); !isPtr {
					return
				}
				n++
				kind, why := nonNil(mi.X, 0)
				if kind == 1 {
					return
				}
				// tested against nil on the way?
				for _, l := range domConds(fn, mi.Block()) {
					cmp, ok := l.Cond.(*ssa.BinOp)
					if !ok || (cmp.Op != token.NEQ && cmp.Op != token.EQL) {
						continue
					}
					var other ssa.Value
					if cmp.X == mi.X {
						other = cmp.Y
					} else if cmp.Y == mi.X {
						other = cmp.X
					}
					if other == nil || !isNilConst(other) {
						continue
					}
					if (cmp.Op == token.NEQ) == l.Pol {
						return
					}
				}
				pos := mi.Pos()
				if !pos.IsValid() {
					pos = mi.X.Pos()
				}
				if !pos.IsValid() {
					pos = fn.Pos()
				}
				ob := r.Ob(rule, fmt.Sprintf("%s: the %s turned into an error is not nil", fnName(fn), types.TypeString(mi.X.Type(), shortQual)), c.pos(pos))
				if kind == 2 {
					ob.Bad("the pointer " + exprStr(mi.X) + " can be nil (" + why + ") and is stored as an `error` without a test: the error is non-nil although nothing failed, a correct program is rejected and Error() on it dereferences nil")
				} else {
					ob.Und("cannot tell whether " + exprStr(mi.X) + " is nil when it is turned into an error")
				}
			})
		}
	}
	ob := r.Ob(rule, "pointers converted to the error interface between source text and program", "")
	ob.OK(fmt.Sprintf("%d conversion(s) examined", n))
	r.Floor(rule, "pointer-to-error conversions examined", n, 20)
}
