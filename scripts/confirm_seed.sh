#!/bin/bash
# Confirms a seeded change in a scratch worktree of /repo's HEAD: (1) suite passes with the patch, (2) demo fails with it,
# (3) demo passes without it. Usage: confirm_seed.sh <seed dir name, e.g. C01a>. Prints one line "CONFIRM <id> ..." .
id=$1
sd=/verif/seeded/$id
wt=/tmp/confirm-$id
export GOFLAGS= GOPROXY=off GOSUMDB=off GOTOOLCHAIN=local; unset GOWORK
git -C /repo worktree remove --force $wt >/dev/null 2>&1
git -C /repo worktree add --detach $wt HEAD -q || { echo "CONFIRM $id worktree-failed"; exit 1; }
cd $wt
demo_path=$(jq -r .demo_path_in_repo $sd/meta.json)
demo_cmd=$(jq -r .demo_run_cmd $sd/meta.json)
demo_file=$(ls $sd/*_test.go | head -1)
res=""
if git apply --check $sd/patch.diff 2>/dev/null; then git apply $sd/patch.diff; res="applies";
elif patch -p1 --dry-run -s < $sd/patch.diff >/dev/null 2>&1; then patch -p1 -s < $sd/patch.diff; res="applies-fuzzy";
else echo "CONFIRM $id patch-does-not-apply"; cd /; git -C /repo worktree remove --force $wt; exit 1; fi
if /verif/scripts/run_tests.sh $wt >/tmp/confirm-$id.log 2>&1; then res="$res suite-pass"; else res="$res SUITE-FAIL"; fi
mkdir -p $(dirname $demo_path); cp $demo_file $demo_path
if timeout 300 bash -c "$demo_cmd" >>/tmp/confirm-$id.log 2>&1; then res="$res DEMO-PASSES-WITH-PATCH"; else res="$res demo-fails-with-patch"; fi
rm $demo_path; git checkout -q -- . ; git clean -fdq
cp $demo_file $demo_path
if timeout 300 bash -c "$demo_cmd" >>/tmp/confirm-$id.log 2>&1; then res="$res demo-passes-without"; else res="$res DEMO-FAILS-WITHOUT"; fi
cd /; git -C /repo worktree remove --force $wt
echo "CONFIRM $id $res"
rm -f /tmp/confirm-$id.log
