#!/bin/bash
# Applies an arbitrary patch dir (with patch.diff) to /repo, runs the given properties, prints violations, reverts.
pd=$1; shift
cd /repo || exit 2
git diff --quiet || { echo "repo dirty"; exit 2; }
git apply $pd/patch.diff || exit 2
mkdir -p /tmp/vscratch_tp; cp /verif/known_findings.json /tmp/vscratch_tp/
for p in "$@"; do
  out=$(cd /verif && timeout 300 bin/vorecheck -property $p -verif /tmp/vscratch_tp 2>&1); rc=$?
  echo "== $p exit=$rc"; echo "$out" | grep -E '^(violated|UNDECIDED|ERROR)' | cut -c1-${WIDTH:-700}
done
git checkout -q -- . ; git clean -fdq
