#!/bin/bash
# Fast regression of own-property detection: every seeded change is applied in a scratch worktree of /repo's HEAD and only the check
# of the property it was written against is run (-repo), 8 at a time. Never touches /repo's working tree.
# Usage: own_matrix.sh [dir with <seed>/patch.diff (default /verif/seeded)]   Output: one line per seed.
dir=${1:-/verif/seeded}
bin=/verif/bin/vorecheck; [ -x /verif/bin/vorecheck.dev ] && bin=/verif/bin/vorecheck.dev; [ -n "$VBIN" ] && bin=$VBIN
one() {
  sd=$1; dir=$2; bin=$3
  p=${sd:0:3}
  wt=$(mktemp -d /tmp/ownwt.XXXX)
  git -C /repo worktree add --detach -q $wt HEAD 2>/dev/null || { echo "$sd worktree-failed"; return; }
  if ( cd $wt && (git apply $dir/$sd/patch.diff 2>/dev/null || patch -p1 -s < $dir/$sd/patch.diff >/dev/null 2>&1) ); then
    scratch=$(mktemp -d /tmp/ownsc.XXXX); cp /verif/known_findings.json $scratch/
    out=$(cd /verif && timeout 300 $bin -property $p -repo $wt -verif $scratch 2>&1); rc=$?
    rules=$(echo "$out" | grep -E '^violated' | sed -E 's#^violated [^/]+/([^/]+)/.*#\1#' | sort -u | tr '\n' ' ')
    echo "$sd exit=$rc $rules"
    rm -rf $scratch
  else
    echo "$sd patch-does-not-apply"
  fi
  git -C /repo worktree remove --force $wt >/dev/null 2>&1
}
export -f one
ls $dir | while read sd; do [ -f $dir/$sd/patch.diff ] && echo $sd; done | xargs -P 8 -I{} bash -c "one {} $dir $bin" | sort
