#!/usr/bin/env python3
# add_rule.py <after rule name> <new rule name> <go call expr with RULE as the rule name placeholder>
# Inserts a registration line into checker/props.go after the (possibly multi-line) registration of an existing rule.
import sys
after, name, call = sys.argv[1:4]
p = '/verif/checker/props.go'
lines = open(p).read().split('\n')
idx = None
for i, l in enumerate(lines):
    if 'Name: "%s"' % after in l:
        idx = i
assert idx is not None, after
j = idx
while not lines[j].rstrip().endswith('}},'):
    j += 1
new = '\t\t\t{Name: "%s", Run: func(c *Ctx) { %s }},' % (name, call.replace('RULE', '"%s"' % name))
assert not any('Name: "%s"' % name in l for l in lines), name
lines.insert(j + 1, new)
open(p, 'w').write('\n'.join(lines))
print("inserted", new.strip())
