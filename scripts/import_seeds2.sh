#!/bin/bash
# Imports round-2 seeds from /tmp/seeds2/<id>/{c,d} into /verif/seeded/<id>{c,d} (only complete ones not yet imported).
for d in /tmp/seeds9/C*/[qr]; do
  [ -f $d/patch.diff ] && [ -f $d/meta.json ] && ls $d/*_test.go >/dev/null 2>&1 || continue
  id=$(basename $(dirname $d))$(basename $d)
  [ -d /verif/seeded/$id ] && continue
  mkdir -p /verif/seeded/$id
  cp $d/patch.diff $d/meta.json $d/*_test.go /verif/seeded/$id/
  # demo_run_cmd must be relative to the repository root
  sed -i -E 's#cd /tmp/wt[23456789]?-C[0-9]+(/| *&& *)#\1#; ' /verif/seeded/$id/meta.json
  echo imported $id
done
