#!/opt/veriftools/pyvenv/bin/python
"""Validates MANIFEST.json and every evidence file against the harness schemas."""
import json, jsonschema, glob, sys
ok = True
try:
    jsonschema.validate(json.load(open('/verif/MANIFEST.json')), json.load(open('/root/.vp/MANIFEST.schema.json')))
except Exception as e:
    ok = False; print("MANIFEST invalid:", str(e)[:300])
for f in sorted(glob.glob('/verif/evidence/*.json')):
    try:
        jsonschema.validate(json.load(open(f)), json.load(open('/root/.vp/EVIDENCE.schema.json')))
    except Exception as e:
        ok = False; print(f, "invalid:", str(e)[:300])
print("valid" if ok else "INVALID")
sys.exit(0 if ok else 1)
