#!/bin/bash
# Applies a seeded change to /repo's working tree, runs the checks, and reverts. Usage: try_seed.sh <seed e.g. C11a> [property ids...|all]
seed=$1; shift
props="$@"
[ -z "$props" ] && props=${seed:0:3}
if [ "$props" = all ]; then props=$(jq -r '.checks[].property_id' /verif/MANIFEST.json); fi
mkdir -p /tmp/vscratch_tp; cp /verif/known_findings.json /tmp/vscratch_tp/
cd /repo || exit 2
if ! git diff --quiet; then echo "repo dirty"; exit 2; fi
if git apply --check /verif/seeded/$seed/patch.diff 2>/dev/null; then git apply /verif/seeded/$seed/patch.diff
elif patch -p1 --dry-run -s < /verif/seeded/$seed/patch.diff >/dev/null 2>&1; then patch -p1 -s < /verif/seeded/$seed/patch.diff
else echo "SEED $seed: patch does not apply"; exit 2; fi
for p in $props; do
  out=$(cd /verif && timeout 300 bin/vorecheck -property $p -verif /tmp/vscratch_tp 2>&1); rc=$?
  echo "SEED $seed property $p exit=$rc $(echo "$out" | grep -c '^violated') violated, $(echo "$out" | grep -c '^UNDECIDED') undecided"
  echo "$out" | grep -E '^(violated|UNDECIDED|ERROR)' | cut -c1-400 | head -8
done
git checkout -q -- . ; git clean -fdq
git diff --quiet || echo "WARNING repo still dirty"
