# Table of claims; executed by gen_manifest.py. Keep in step with checker/props.go and DESIGN.md.
claim("C13",
  "Static analysis of necessary structural conditions: relocation (adjust) never writes through references of the stored pattern (alias analysis on SSA address chains), every pc-carrying instruction field found by offset-taint is shifted by adjust, no code reachable from Run stores into program-owned memory, globals written during Compile are re-initialised. Decides those clauses for all programs at once; does not decide VM-level equivalence of inlined copies and calls.",
  "Trusts go/types+go/ssa and the VTA call graph; treats append/make results as fresh; the definition-transparency behaviour itself (what the VM does with a call vs. an inlined body) is not decided.",
  "SSA alias/ownership analysis + field-sensitive taint + call-graph reachability", "DESIGN.md section 5 C13")
claim("C19",
  "Static ownership argument for data-race freedom: no package-level variable is accessed unsynchronised from code reachable from Compile/Run (call graph + SSA), run-time code never stores into the shared compiled program, no go/unsafe/cgo, library calls only into allow-listed goroutine-safe packages. Holds for every schedule at once, which no test can sample.",
  "Trusts the documented goroutine-safety of the allow-listed standard-library packages and the over-approximation of the VTA call graph.",
  "global-write reachability (VTA call graph) + SSA ownership analysis", "DESIGN.md section 5 C19")
claim("C11",
  "Static table extraction: the evaluator's dispatch (executeBinaryExpr/executeUnaryExpression) and the nine coercion accessors are partially evaluated over the finite tag domain (operator x operand types) on go/ssa, and every documented cell of the Type Coersion table (parsed from docs/language/LanguageDetails.md on each run) is compared with the extracted leaf term (accessors, Go operator, result constructor); the Pratt parser's binding powers are folded per operator and checked against the documented precedence levels and left associativity. Covers all operand-type combinations at once.",
  "Trusts strconv and Go's operators; the documentation table is the oracle; a restructured evaluator whose branches no longer fold over the tags is reported UNDECIDED, not violated.",
  "table extraction by partial evaluation (conditional constant propagation per cell) on SSA vs. the documented table", "DESIGN.md section 5 C11")
claim("C12",
  "Static table extraction: checkBinaryExpr/checkUnaryExpr are partially evaluated over {string,number,bool,error}^2 x 13 operators and compared cell by cell, both directions, with the documented table; accepted cells are cross-checked against the evaluator's leaves (no panic, promised result type); checkIf/checkReturn/checkBreak/checkContinue/checkLoop are evaluated over their finite inputs; both definition generators are shown to call the checker on every statement and to fail on the first PTERROR; statement/expression dispatch completeness by MakeInterface-producer vs type-switch-case comparison.",
  "Trusts the documentation table as specification; flow-sensitive typing is excluded by the property; dynamic type of variables equals checked type only under C09.R3.",
  "decision-table extraction by partial evaluation on SSA + type-switch completeness", "DESIGN.md section 5 C12")
claim("C17",
  "Static analysis of the rendering code: reaching-definition analysis of every type assertion (an assertion whose every reaching MakeInterface has another dynamic type always panics), extraction of the key->field table of Match.MarshalJSON/Range.MarshalJSON with the control dependence of each entry (replacement only under HasValue()), type closure of everything passed to json.Marshal (JSON-safe, through the MakeInterface producers of interface-typed elements), every MarshalJSON returns encoding/json output, Json and FormattedJson marshal the receiver.",
  "Trusts encoding/json (validity, escaping); does not decide value round-trips.",
  "SSA reaching definitions + control dependence + type-closure analysis", "DESIGN.md section 5 C17")
claim("C18",
  "Static analysis of package main: constant evaluation of os.OpenFile flags/permissions, a who-may-write-stdout analysis (call-graph closure of fmt.Print*/os.Stdout writers) combined with path feasibility in main.main (os.Exit/log.Fatal as terminators, transitive control-dependence literals for contradictory flag tests) around the JSON-printing statements, exits non-zero and never after RunFiles, replace-mode table by partial evaluation, documented flag set.",
  "Does not decide the process-level behaviour of the built binary; assumes flag.PrintDefaults/log/println go to stderr; the -files path parser's string algorithm is not decided (C20).",
  "call-graph effect analysis + control dependence + constant evaluation", "DESIGN.md section 5 C18")
claim("C14",
  "Equivalence with a regex engine is not decided. Decided by static table extraction on SSA: every AstLoop literal of parse_regexp_quantifier with the character tests it is control-dependent on gives the quantifier table (* + ? {m} {m,} {m,n}); the lazy marker's handling may not depend on the loop bounds; the atom table (^ $ . \\d \\D \\s \\S) of the literal/escape parsers; the capturing group's number is read before the recursive call that parses its body (dominance).",
  "Only the regex-specific translation tables and numbering order; the matching semantics of the resulting AST is C01's (not decided). A renumbering scheme that is not a counter is reported UNDECIDED.",
  "SSA control-dependence table extraction + dominance", "DESIGN.md section 5 C14")
claim("C16",
  "Static necessary conditions of string-literal decoding: push-back depth vs. bufio's one-level UnreadRune at every unread call site, the escape table and IsHex folded over every ASCII rune (constant propagation through getEscapedRune/IsHex), HexToAscii base, sibling comparison of the two quote-style branches of the lexer (AST, modulo state constants and quote), and read() returning exactly the rune of one ReadRune call.",
  "Does not decide the lexer state machine as a whole; trusts bufio's documented behaviour.",
  "typestate on push-back depth + constant folding of the escape tables + sibling-branch comparison", "DESIGN.md section 5 C16")
claim("C08",
  "Static analysis of necessary conditions of totality, each holding for all source texts at once: end-of-input constant propagation through every lexer loop that reads input (no feasible cycle once read() returns 0), an inventory of every explicit panic reachable from Compile discharged by enum/type-switch exhaustiveness or a frozen trusted table, nil-success returns of parse functions traced to their call sites (a nil node with a nil error must be tested before conversion/dereference), dominance of `i < len(s)` over every index into the regex pattern string and the filtered expression-token slice with call-site obligations for entry-parameter indexes, TokenType.PP exhaustive, error constructors never get nil tokens, generator/checker type switches end in an error.",
  "Axioms A1-A3 (token list ends in EOF, skipping never passes EOF, bufio EOF is sticky); does not bound stack depth or the size of unrolled loops; the token parser's sentinel discipline is only covered through R3.",
  "sentinel constant propagation on the SSA CFG + panic inventory over the call graph + guard dominance + nil-flow analysis", "DESIGN.md section 5 C08")
claim("C15",
  "Typestate analysis over SSA with function summaries (greatest fixpoint over the parser's call graph): each of the ~174 token-kind decisions of parser.go must look at an index that is a result of consumeIgnoreableTokens, the function's own parameter (obligation moved to every call site) or an index whose callee summary is `skipped`; sibling comparison of the kinds dropped by the expression-token filter and the kinds skipped by the skipper; keyword switch tagged by strings.ToLower of the whole lexeme with lower-case spellings. A raw decision is exactly a gap where a blank or comment changes the parse, for all programs at once.",
  "Three frozen exceptions need a path-sensitive summary (index returned by parse_process_statements). Does not decide the lexer's comment state machine nor AST equality.",
  "interprocedural typestate (skipped/raw index) on SSA + sibling table comparison", "DESIGN.md section 5 C15")
for pid in ["C01","C02","C03","C04","C05","C06","C07","C08","C09","C10","C11","C12","C13","C14","C15","C16","C17","C18","C19","C20"]:
    if pid not in CLAIMED:
        NA[pid] = "check under construction in this session (rules designed in DESIGN.md section 5, not yet implemented in the checker); not claimed until its rules run"
