# Table of claims; executed by gen_manifest.py. Keep in step with checker/props.go and DESIGN.md.
claim("C13",
  "Static analysis of necessary structural conditions: relocation (adjust) never writes through references of the stored pattern (alias analysis on SSA address chains), every pc-carrying instruction field found by offset-taint is shifted by adjust, no code reachable from Run stores into program-owned memory, globals written during Compile are re-initialised. Decides those clauses for all programs at once; does not decide VM-level equivalence of inlined copies and calls.",
  "Trusts go/types+go/ssa and the VTA call graph; treats append/make results as fresh; the definition-transparency behaviour itself (what the VM does with a call vs. an inlined body) is not decided.",
  "SSA alias/ownership analysis + field-sensitive taint + call-graph reachability", "DESIGN.md section 5 C13")
claim("C19",
  "Static ownership argument for data-race freedom: no package-level variable is accessed unsynchronised from code reachable from Compile/Run (call graph + SSA), run-time code never stores into the shared compiled program, no go/unsafe/cgo, library calls only into allow-listed goroutine-safe packages. Holds for every schedule at once, which no test can sample.",
  "Trusts the documented goroutine-safety of the allow-listed standard-library packages and the over-approximation of the VTA call graph.",
  "global-write reachability (VTA call graph) + SSA ownership analysis", "DESIGN.md section 5 C19")
claim("C11",
  "Static table extraction: the evaluator's dispatch (executeBinaryExpr/executeUnaryExpression) and the nine coercion accessors are partially evaluated over the finite tag domain (operator x operand types) on go/ssa, and every documented cell of the Type Coersion table (parsed from docs/language/LanguageDetails.md on each run) is compared with the extracted leaf term (accessors, Go operator, result constructor); the Pratt parser's binding powers are folded per operator and checked against the documented precedence levels and left associativity. Covers all operand-type combinations at once.",
  "Trusts strconv and Go's operators; the documentation table is the oracle; a restructured evaluator whose branches no longer fold over the tags is reported UNDECIDED, not violated.",
  "table extraction by partial evaluation (conditional constant propagation per cell) on SSA vs. the documented table", "DESIGN.md section 5 C11")
claim("C12",
  "Static table extraction: checkBinaryExpr/checkUnaryExpr are partially evaluated over {string,number,bool,error}^2 x 13 operators and compared cell by cell, both directions, with the documented table; accepted cells are cross-checked against the evaluator's leaves (no panic, promised result type); checkIf/checkReturn/checkBreak/checkContinue/checkLoop are evaluated over their finite inputs; both definition generators are shown to call the checker on every statement and to fail on the first PTERROR; statement/expression dispatch completeness by MakeInterface-producer vs type-switch-case comparison.",
  "Trusts the documentation table as specification; flow-sensitive typing is excluded by the property; dynamic type of variables equals checked type only under C09.R3.",
  "decision-table extraction by partial evaluation on SSA + type-switch completeness", "DESIGN.md section 5 C12")
claim("C17",
  "Static analysis of the rendering code: reaching-definition analysis of every type assertion (an assertion whose every reaching MakeInterface has another dynamic type always panics), extraction of the key->field table of Match.MarshalJSON/Range.MarshalJSON with the control dependence of each entry (replacement only under HasValue()), type closure of everything passed to json.Marshal (JSON-safe, through the MakeInterface producers of interface-typed elements), every MarshalJSON returns encoding/json output, Json and FormattedJson marshal the receiver.",
  "Trusts encoding/json (validity, escaping); does not decide value round-trips.",
  "SSA reaching definitions + control dependence + type-closure analysis", "DESIGN.md section 5 C17")
claim("C18",
  "Static analysis of package main: constant evaluation of os.OpenFile flags/permissions, a who-may-write-stdout analysis (call-graph closure of fmt.Print*/os.Stdout writers) combined with path feasibility in main.main (os.Exit/log.Fatal as terminators, transitive control-dependence literals for contradictory flag tests) around the JSON-printing statements, exits non-zero and never after RunFiles, replace-mode table by partial evaluation, documented flag set.",
  "Does not decide the process-level behaviour of the built binary; assumes flag.PrintDefaults/log/println go to stderr; the -files path parser's string algorithm is not decided (C20).",
  "call-graph effect analysis + control dependence + constant evaluation", "DESIGN.md section 5 C18")
claim("C14",
  "Equivalence with a regex engine is not decided. Decided by static table extraction on SSA: every AstLoop literal of parse_regexp_quantifier with the character tests it is control-dependent on gives the quantifier table (* + ? {m} {m,} {m,n}); the lazy marker's handling may not depend on the loop bounds; the atom table (^ $ . \\d \\D \\s \\S) of the literal/escape parsers; the capturing group's number is read before the recursive call that parses its body (dominance).",
  "Only the regex-specific translation tables and numbering order; the matching semantics of the resulting AST is C01's (not decided). A renumbering scheme that is not a counter is reported UNDECIDED.",
  "SSA control-dependence table extraction + dominance", "DESIGN.md section 5 C14")
claim("C16",
  "Static necessary conditions of string-literal decoding: push-back depth vs. bufio's one-level UnreadRune at every unread call site, the escape table and IsHex folded over every ASCII rune (constant propagation through getEscapedRune/IsHex), HexToAscii base, sibling comparison of the two quote-style branches of the lexer (AST, modulo state constants and quote), and read() returning exactly the rune of one ReadRune call.",
  "Does not decide the lexer state machine as a whole; trusts bufio's documented behaviour.",
  "typestate on push-back depth + constant folding of the escape tables + sibling-branch comparison", "DESIGN.md section 5 C16")
claim("C08",
  "Static analysis of necessary conditions of totality, each holding for all source texts at once: end-of-input constant propagation through every lexer loop that reads input (no feasible cycle once read() returns 0), an inventory of every explicit panic reachable from Compile discharged by enum/type-switch exhaustiveness or a frozen trusted table, nil-success returns of parse functions traced to their call sites (a nil node with a nil error must be tested before conversion/dereference), dominance of `i < len(s)` over every index into the regex pattern string and the filtered expression-token slice with call-site obligations for entry-parameter indexes, TokenType.PP exhaustive, error constructors never get nil tokens, generator/checker type switches end in an error.",
  "Axioms A1-A3 (token list ends in EOF, skipping never passes EOF, bufio EOF is sticky); does not bound stack depth or the size of unrolled loops; the token parser's sentinel discipline is only covered through R3.",
  "sentinel constant propagation on the SSA CFG + panic inventory over the call graph + guard dominance + nil-flow analysis", "DESIGN.md section 5 C08")
claim("C15",
  "Typestate analysis over SSA with function summaries (greatest fixpoint over the parser's call graph): each of the ~174 token-kind decisions of parser.go must look at an index that is a result of consumeIgnoreableTokens, the function's own parameter (obligation moved to every call site) or an index whose callee summary is `skipped`; sibling comparison of the kinds dropped by the expression-token filter and the kinds skipped by the skipper; keyword switch tagged by strings.ToLower of the whole lexeme with lower-case spellings. A raw decision is exactly a gap where a blank or comment changes the parse, for all programs at once.",
  "Three frozen exceptions need a path-sensitive summary (index returned by parse_process_statements). Does not decide the lexer's comment state machine nor AST equality.",
  "interprocedural typestate (skipped/raw index) on SSA + sibling table comparison", "DESIGN.md section 5 C15")
claim("C01",
  "The equivalence with a reference matcher is NOT decided by static analysis. Decided are the structural mechanisms the property's anchors name: dispatch completeness (every concrete type converted to a pipeline interface, collected from SSA MakeInterface sites, has a type-switch case of the same pointer-ness; character-class enum switches exhaustive), relocation completeness (offset-taint finds the pc-carrying instruction fields; adjust must shift each), and the scan discipline of findMatches (next start = end of the successful non-empty attempt or one byte further; fresh VM state per attempt).",
  "Narrow: instruction semantics, alternative priority, the greedy/lazy loop protocol and the meaning of jump targets are value-level and outside this technique family; the seeded loop-protocol change C01b is documented as not detected.",
  "type-switch/enum completeness + field-sensitive taint + SSA leaf classification of loop-carried variables", "DESIGN.md section 5 C01")
claim("C02",
  "Static snapshot-isolation analysis: the methods that write through their receiver and the fields they are invoked on are computed for package engine; every such component must be deeply fresh in the value returned by SearchEngineState.Copy (fresh-allocation analysis through callees, composite literals and stack copies); binding provenance of STARTVAR/ENDVAR/MATCHVAR by SSA expression comparison and dominance; handlers never mutate their incoming state; every attempt starts from CreateState with fresh reference fields.",
  "Scoped exclusions: snapshots reachable only through `backtrack` (LIFO argument stated, not checked) and the shared reader. Does not decide which of several bindings of one name wins.",
  "SSA alias/freshness analysis + mutating-method fixpoint + dominance", "DESIGN.md section 5 C02")
claim("C03",
  "Static inductive skeleton: who-writes analysis of the text/offset/line/column fields (single writer CONSUME), SSA expression identity inside CONSUME (the appended string and the length added are the same READ result; line/column stores depend on it), field-by-field construction of the match record and of the initial state, and the scan discipline / push conditions of findMatches.",
  "Does not decide that the reader returns the right bytes (C07), multi-byte column arithmetic, nor the arithmetic itself.",
  "who-may-write + SSA expression comparison + dominance", "DESIGN.md section 5 C03")
claim("C04",
  "Non-interference analysis on the SSA of findMatches (data dependence and per-iteration control dependence through post-dominators): the scan position, line, column, match counter and the arguments of CreateState/MakeMatch do not depend on skip/take/last except through loop-exit branches; window predicates (push conditions, loop bound, Limit) compared structurally; the amount-clause table of parse_amount extracted from its returns and the token tests controlling them; identity of All/Skip/Take/Last through parser, generator and engine.",
  "Close to complete for the property; trusts the queue implementation beyond `Limit pops from the front`.",
  "non-interference (data + control dependence) on SSA + table extraction", "DESIGN.md section 5 C04")
claim("C05",
  "Static analysis of the replacement pipeline: with-item dispatch completeness, every store to the replacement text appends (SSA expression shape), match records are written only by MakeMatch, one replacer state per match initialised inside the loop from the current match, built-ins added to a deep copy of the variables, and the two outcomes of generateReplaceVariable / the guard of WRITEVAR by partial evaluation and control dependence.",
  "Does not decide transform results (C11).",
  "who-may-write + loop-structure analysis + partial evaluation", "DESIGN.md section 5 C05")
claim("C06",
  "Static analysis of searchReplace and the file layer: mode table (which constructor calls are control-dependent on which replace mode, order of load and truncating open), who-may-modify-the-file-system over the call graph (only WriterFromFile/RunFiles' rename; nothing reachable from searchFind), constant open flags, and cursor pairing of the splice loop by comparing the back-edge expressions of the two cursors with what the two WriteAt calls wrote.",
  "Does not decide the arithmetic (that gaps and values tile the input) nor OS/MemoryStream semantics.",
  "control-dependence table + call-graph effect analysis + SSA expression comparison", "DESIGN.md section 5 C06")
claim("C07",
  "The buffered-window arithmetic is NOT decided (value-level). Decided: no read in package files turns io.EOF into a panic (guard analysis), each Reader constructor's size equals the length of its contents (expression comparison), Reader.Read is always preceded by a Seek on the same reader, BufferedFile methods never use the OS file cursor.",
  "Narrow by design; see DESIGN.md.",
  "guard dominance + who-may-call + sibling consistency", "DESIGN.md section 5 C07")
claim("C09",
  "Static inventory of panic-capable constructs reachable from Run/RunFiles, each discharged by a named rule: explicit panics (type-switch/enum completeness, checker-subset-of-evaluator cells, frozen trusted table of VM invariants and OS failures), monotone typing in the flow-insensitive checker, tested divisors, bound test before instruction fetch, EOF-tolerant reads, guarded type assertions, tested results of the nil-returning stack API, reader lifetime (post-dominating Close, no escape, opener closes).",
  "VM-invariant panics and OS failures are trusted (table printed in the evidence); index safety that depends on VM invariants is not decided. Two genuine defects are recorded as known findings (re-typed variables, division by zero).",
  "panic inventory over the VTA call graph + guard dominance + table cross-check", "DESIGN.md section 5 C09")
claim("C10",
  "Termination itself is not decided. Decided: the zero-width guard dominates every further loop iteration and leads only to BACKTRACK+return; matchEndNotIn advances only on progress; a must-analysis (greatest fixpoint) shows every handler and MATCH* primitive moves the state on every returning path; the outer scan advances; loop identity uses id and call depth.",
  "Weakened-but-present guards and the inner loops of MATCHWHOLELINE/WORD are not decided.",
  "dominance / must-pass-through + must-dataflow over the CFG", "DESIGN.md section 5 C10")
claim("C20",
  "The star matcher's correctness is a string-algorithm property and is NOT decided. Decided: every path GetFileList adds itself is control-dependent on `not a directory` and on pathMatches, and every recursive call is made on the shrunk pattern.",
  "Narrow by design: only `none extra / directories never listed / bounded recursion`.",
  "control dependence + call-site shape", "DESIGN.md section 5 C20")
for pid in ["C01","C02","C03","C04","C05","C06","C07","C08","C09","C10","C11","C12","C13","C14","C15","C16","C17","C18","C19","C20"]:
    if pid not in CLAIMED:
        NA[pid] = "check under construction in this session (rules designed in DESIGN.md section 5, not yet implemented in the checker); not claimed until its rules run"
