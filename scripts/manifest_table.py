# Table of claims; executed by gen_manifest.py. Keep in step with checker/props.go and DESIGN.md.
claim("C13",
  "Static analysis of necessary structural conditions: relocation (adjust) never writes through references of the stored pattern (alias analysis on SSA address chains), every pc-carrying instruction field found by offset-taint is shifted by adjust, no code reachable from Run stores into program-owned memory, globals written during Compile are re-initialised. Decides those clauses for all programs at once; does not decide VM-level equivalence of inlined copies and calls.",
  "Trusts go/types+go/ssa and the VTA call graph; treats append/make results as fresh; the definition-transparency behaviour itself (what the VM does with a call vs. an inlined body) is not decided.",
  "SSA alias/ownership analysis + field-sensitive taint + call-graph reachability", "DESIGN.md section 5 C13")
claim("C19",
  "Static ownership argument for data-race freedom: no package-level variable is accessed unsynchronised from code reachable from Compile/Run (call graph + SSA), run-time code never stores into the shared compiled program, no go/unsafe/cgo, library calls only into allow-listed goroutine-safe packages. Holds for every schedule at once, which no test can sample.",
  "Trusts the documented goroutine-safety of the allow-listed standard-library packages and the over-approximation of the VTA call graph.",
  "global-write reachability (VTA call graph) + SSA ownership analysis", "DESIGN.md section 5 C19")
for pid in ["C01","C02","C03","C04","C05","C06","C07","C08","C09","C10","C11","C12","C14","C15","C16","C17","C18","C20"]:
    NA[pid] = "check under construction in this session (rules designed in DESIGN.md section 5, not yet implemented in the checker); not claimed until its rules run"
