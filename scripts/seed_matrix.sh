#!/bin/bash
# Runs every check against every seeded change (applied to /repo's working tree, then reverted) and prints a detection matrix.
# Usage: seed_matrix.sh [dir with <id>/patch.diff ...] (default /verif/seeded). Evidence of these runs goes to a scratch directory.
dir=${1:-/verif/seeded}
scratch=$(mktemp -d /tmp/vscratch.XXXX)
cp /verif/known_findings.json $scratch/
props=$(jq -r '.checks[].property_id' /verif/MANIFEST.json)
cd /repo || exit 2
git diff --quiet || { echo "repo dirty"; exit 2; }
for sd in $(ls $dir); do
  [ -f $dir/$sd/patch.diff ] || continue
  if git apply --check $dir/$sd/patch.diff 2>/dev/null; then git apply $dir/$sd/patch.diff
  elif patch -p1 --dry-run -s < $dir/$sd/patch.diff >/dev/null 2>&1; then patch -p1 -s < $dir/$sd/patch.diff
  else echo "$sd: PATCH-DOES-NOT-APPLY"; continue; fi
  if ! go build ./... 2>/dev/null; then echo "$sd: DOES-NOT-BUILD"; git checkout -q -- .; git clean -fdq; continue; fi
  for p in $props; do
    ( out=$(/verif/bin/vorecheck -property $p -verif $scratch 2>&1); rc=$?
      rules=$(echo "$out" | grep -E '^violated' | sed -E 's#^violated [^/]+/([^/]+)/.*#\1#' | sort -u | tr '\n' ' ')
      und=$(echo "$out" | grep -c '^UNDECIDED')
      echo "$p:$rc:${rules}:u$und" > $scratch/res_$p ) &
  done
  wait
  line="$sd:"
  for p in $props; do
    IFS=: read pp rc rules und < $scratch/res_$p
    if [ "$rc" != 0 ]; then line="$line $pp(exit=$rc ${rules}${und})"; fi
  done
  echo "$line"
  git checkout -q -- . ; git clean -fdq
done
rm -rf $scratch
git diff --quiet || echo "WARNING repo dirty"
