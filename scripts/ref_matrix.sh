#!/bin/bash
# Every check against every behaviour-preserving refactoring, each refactoring in its own scratch worktree (-repo), 6 at a time.
# Never touches /repo's working tree. Prints one line per refactoring listing the checks that did not exit 0.
# Usage: ref_matrix.sh [dir (default /verif/refactors)] [name filter regex]
dir=${1:-/verif/refactors}; filter=${2:-.}
bin=/verif/bin/vorecheck; [ -x /verif/bin/vorecheck.dev ] && bin=/verif/bin/vorecheck.dev; [ -n "$VBIN" ] && bin=$VBIN
props=$(jq -r '.checks[].property_id' /verif/MANIFEST.json | tr '\n' ' ')
one() {
  sd=$1; dir=$2; bin=$3; shift 3
  wt=$(mktemp -d /tmp/refwt.XXXX)
  git -C /repo worktree add --detach -q $wt HEAD 2>/dev/null || { echo "$sd worktree-failed"; return; }
  line="$sd:"
  if ( cd $wt && (git apply $dir/$sd/patch.diff 2>/dev/null || patch -p1 -s < $dir/$sd/patch.diff >/dev/null 2>&1) ); then
    scratch=$(mktemp -d /tmp/refsc.XXXX); cp /verif/known_findings.json $scratch/
    for p in "$@"; do
      out=$(cd /verif && timeout 300 $bin -property $p -repo $wt -verif $scratch 2>&1); rc=$?
      if [ $rc != 0 ]; then
        rules=$(echo "$out" | grep -E '^violated' | sed -E 's#^violated [^/]+/([^/]+)/.*#\1#' | sort -u | tr '\n' ' ')
        line="$line $p(exit=$rc $rules)"
      fi
    done
    rm -rf $scratch
  else
    line="$line patch-does-not-apply"
  fi
  git -C /repo worktree remove --force $wt >/dev/null 2>&1
  echo "$line"
}
export -f one
ls $dir | grep -E "$filter" | while read sd; do [ -f $dir/$sd/patch.diff ] && echo $sd; done | xargs -P 6 -I{} bash -c "one {} $dir $bin $props" | sort
