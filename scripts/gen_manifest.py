#!/usr/bin/env python3
"""Generates /verif/MANIFEST.json from the table below (kept here so that the manifest is always consistent)."""
import json, os, sys
HERE = os.path.dirname(os.path.dirname(os.path.abspath(__file__)))

SETUP = "cd /verif/checker && GOFLAGS=-mod=vendor GOPROXY=off GOSUMDB=off GOTOOLCHAIN=local GOWORK=off go build -o /verif/bin/vorecheck ."

# id -> (level text, level note, technique, design_ref)
CLAIMED = {}
NA = {}

def claim(pid, text, note, technique, ref):
    CLAIMED[pid] = (text, note, technique, ref)

exec(open(os.path.join(HERE, "scripts", "manifest_table.py")).read())

checks = []
for pid in sorted(CLAIMED):
    text, note, technique, ref = CLAIMED[pid]
    checks.append({
        "property_id": pid,
        "quick_cmd": f"bin/vorecheck -property {pid} -tier quick",
        "thorough_cmd": f"bin/vorecheck -property {pid} -tier thorough",
        "evidence_file": f"/verif/evidence/{pid}.json",
        "replay_cmd_template": f"bin/vorecheck -property {pid} -replay {{path}}",
        "engine": "vorecheck",
        "level_claimed": {"category": "other", "text": text, "design_ref": ref},
        "level_note": note,
        "technique": technique,
    })
m = {
    "version": 1,
    "setup_cmd": SETUP,
    "hooks": {
        "guard": "verif",
        "enable": "none needed: the checks read /repo's source (go/packages, go/ssa); no hook or instrumentation is compiled into vore",
        "baseline_off_cmd": "/verif/scripts/run_tests.sh /repo",
        "source_commits": [],
        "add_only": True,
    },
    "engines": [{
        "name": "vorecheck",
        "path": "/verif/checker",
        "serves_properties": sorted(CLAIMED),
        "kind_free_text": "repository-specific static analyser (Go, golang.org/x/tools v0.29.0 vendored): type-checked AST, go/ssa, dominators/post-dominators/control dependence, VTA call graph; rules produce obligations keyed by resolved constructs",
    }],
    "checks": checks,
    "notes": "Technique family: static analysis only. Every check loads /repo's current working tree on every run, decides structural necessary conditions of its property (see DESIGN.md section 5) and exits 0 / 1 (VIOLATION line) / 2 (UNDECIDED: the analysis could not resolve an anchor or decide an obligation - not a property verdict). Known genuine defects that are recorded rather than repaired are listed in known_findings.json.",
    "not_applicable": [{"property_id": k, "reason": v} for k, v in sorted(NA.items())],
}
json.dump(m, open(os.path.join(HERE, "MANIFEST.json"), "w"), indent=1)
print("claimed", sorted(CLAIMED), "not_applicable", sorted(NA))
