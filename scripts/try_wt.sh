#!/bin/bash
# Like try_patch.sh but never touches /repo's working tree: applies the patch in a scratch worktree of /repo's HEAD and points the
# checker at it (-repo). Uses bin/vorecheck.dev when present. Usage: try_wt.sh <patch dir> <property>...
pd=$1; shift
wt=$(mktemp -d /tmp/trywt.XXXX)
git -C /repo worktree add --detach -q $wt HEAD || exit 2
( cd $wt && (git apply $pd/patch.diff 2>/dev/null || patch -p1 -s < $pd/patch.diff) ) || { echo "patch does not apply"; git -C /repo worktree remove --force $wt; exit 2; }
bin=/verif/bin/vorecheck; [ -x /verif/bin/vorecheck.dev ] && bin=/verif/bin/vorecheck.dev; [ -n "$VBIN" ] && bin=$VBIN
mkdir -p /tmp/vscratch_wt; cp /verif/known_findings.json /tmp/vscratch_wt/
for p in "$@"; do
  out=$(cd /verif && timeout 300 $bin -property $p -repo $wt -verif /tmp/vscratch_wt 2>&1); rc=$?
  echo "== $p exit=$rc"; echo "$out" | grep -E '^(violated|UNDECIDED|ERROR)' | cut -c1-${WIDTH:-600}
done
git -C /repo worktree remove --force $wt
