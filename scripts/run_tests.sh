#!/bin/bash
# Runs the pinned baseline test suite of a vore tree (default /repo). Usage: run_tests.sh [dir]
# Exit 0 iff every module builds and its tests pass. GOFLAGS must be empty inside the go.work workspace.
dir=${1:-/repo}
export GOFLAGS= GOPROXY=off GOSUMDB=off GOTOOLCHAIN=local
unset GOWORK
rc=0
for m in . ./libvore ./libvore/algo ./libvore/ast ./libvore/bytecode ./libvore/ds ./libvore/engine ./libvore/files ./libvore/testutils; do
  out=$(cd "$dir/$m" && go build ./... 2>&1 && go test -vet=off -count=1 -timeout 25m ./... 2>&1) || rc=1
  echo "$out" | grep -v 'no test files'
done
exit $rc
