#!/bin/bash
# One check against every patch of a corpus, each patch in its own scratch worktree (-repo), 8 at a time.
# Usage: prop_matrix.sh <dir with <name>/patch.diff> <property> [name filter regex]   Output: one line per patch that does not exit 0.
dir=$1; prop=$2; filter=${3:-.}
bin=/verif/bin/vorecheck; [ -x /verif/bin/vorecheck.dev ] && bin=/verif/bin/vorecheck.dev; [ -n "$VBIN" ] && bin=$VBIN
one() {
  sd=$1; dir=$2; bin=$3; p=$4
  wt=$(mktemp -d /tmp/pmwt.XXXX)
  git -C /repo worktree add --detach -q $wt HEAD 2>/dev/null || { echo "$sd worktree-failed"; return; }
  if ( cd $wt && (git apply $dir/$sd/patch.diff 2>/dev/null || patch -p1 -s < $dir/$sd/patch.diff >/dev/null 2>&1) ); then
    scratch=$(mktemp -d /tmp/pmsc.XXXX); cp /verif/known_findings.json $scratch/
    out=$(cd /verif && timeout 300 $bin -property $p -repo $wt -verif $scratch 2>&1); rc=$?
    if [ $rc != 0 ]; then
      echo "$sd $p exit=$rc $(echo "$out" | grep -E '^(violated|UNDECIDED)' | sed -E 's#^(violated|UNDECIDED) [^/]+/([^/: ]+).*#\1:\2#' | sort -u | tr '\n' ' ')"
    fi
    rm -rf $scratch
  else
    echo "$sd patch-does-not-apply"
  fi
  git -C /repo worktree remove --force $wt >/dev/null 2>&1
}
export -f one
ls $dir | grep -E "$filter" | while read sd; do [ -f $dir/$sd/patch.diff ] && echo $sd; done | xargs -P 8 -I{} bash -c "one {} $dir $bin $prop" | sort
